HOOK_COMMITS = ["067ee76"]
NOTES = ("All checks run the real rosu-pp implementation (path dependency on /repo, rebuilt by cargo from the current working tree on every invocation, hooks on). "
         "Exit codes: 0 held (possibly KNOWN-FINDING lines), 1 VIOLATION, 2 machinery failure. Known findings: /verif/KNOWN_FINDINGS.txt.")
ENGINES = [
    {"name": "E1-shape-enumerator", "path": "harness/src/gen.rs, harness/src/ctx.rs", "serves_properties": ["C02"], "kind_free_text": "bounded-exhaustive enumeration of .osu texts / settings / score specifications, decoded and executed on the real code"},
    {"name": "E2-explicit-state-explorer", "path": "harness/src/explore.rs", "serves_properties": [], "kind_free_text": "BFS over operation histories on live objects with canonical-key de-duplication and a same-key-same-observation oracle"},
    {"name": "E3-baton-scheduler", "path": "harness/src/baton.rs", "serves_properties": [], "kind_free_text": "all interleavings of k real OS threads' API calls, one runnable at a time"},
]
CHECKS = {
    "C02": {
        "engine": "E1-shape-enumerator",
        "technique": "bounded-exhaustive enumeration of map shapes x mode configurations x settings on the real code, against a one-shot reference",
        "design_ref": "DESIGN.md §3 C02",
        "text": "Every map of <= N objects over the stated alphabet, in all 7 mode configurations and every setting of the menu, is walked with the real gradual calculator; each value is compared with the one-shot passed_objects(i) result, the announced len() with the number of values, the final value with the full calculation. Exhaustive inside the bound, nothing sampled.",
        "note": "bound: N<=3 quick / N<=4 thorough objects, alphabet and menus as reported in evidence.coverage.universes; divergences needing more or differently shaped objects are outside the claim",
    },
}
NOT_APPLICABLE = {}
