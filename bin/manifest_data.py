HOOK_COMMITS = ["067ee76"]
NOTES = ("All checks run the real rosu-pp implementation (path dependency on /repo, rebuilt by cargo from the current working tree on every invocation, hooks on). "
         "Exit codes: 0 held (possibly KNOWN-FINDING lines), 1 VIOLATION, 2 machinery failure. Known findings: /verif/KNOWN_FINDINGS.txt. "
         "Seeded property-breaking changes and which checks catch them: /verif/seeded/ and DESIGN.md §7.")
E1 = "E1-shape-enumerator"
E2 = "E2-explicit-state-explorer"
E3 = "E3-baton-scheduler"
ENGINES = [
    {"name": E1, "path": "harness/src/gen.rs, harness/src/uni.rs, harness/src/ctx.rs", "serves_properties": [], "kind_free_text": "bounded-exhaustive enumeration of .osu texts / settings / score specifications (indexed universes, all indices visited, 16 threads), decoded and executed on the real code"},
    {"name": E2, "path": "harness/src/explore.rs", "serves_properties": [], "kind_free_text": "BFS over operation histories on live objects (fresh object per history, handlers replayed) with canonical-key de-duplication and a same-key-same-observation oracle"},
    {"name": E3, "path": "harness/src/baton.rs", "serves_properties": [], "kind_free_text": "all interleavings of k real OS threads' API calls, one runnable at a time"},
]
def c(engine, technique, ref, text, note):
    return {"engine": engine, "technique": technique, "design_ref": ref, "text": text, "note": note}
BOUND = "bounds (object count N, alphabets, menus) as reported per run in evidence.coverage.universes and .rule; behaviours needing larger or differently shaped inputs are outside the claim; continuous parameters are gridded"
CHECKS = {
    "C02": c(E1, "bounded-exhaustive enumeration of map shapes x mode configurations x settings on the real code, against a one-shot reference", "DESIGN.md §3 C02",
             "Every grammar map of <= N objects in all 7 mode configurations and every setting of the menu is walked with the real gradual calculator; each value is compared with the one-shot passed_objects(i) result, the announced len() with the number of values, the final value with the full calculation. Exhaustive inside the bound, nothing sampled.", BOUND),
    "C03": c(E2, "explicit-state BFS over next/nth/last x score-state histories of the real gradual performance calculator, one-shot reference per step", "DESIGN.md §4 C03",
             "For every grammar map and setting a breadth-first search over all histories of {next, nth(1), nth(2), nth(N), last} x 7 score states on a live GradualPerformance; every step is compared with the one-shot Performance at the reference position, len() with the reference, states keyed by position with a same-key-same-observation oracle.", BOUND),
    "C04": c(E1, "bounded-exhaustive enumeration of maps x Difficulty x score specifications x every entry point, two generations of attribute reuse", "DESIGN.md §3 C04",
             "Every entry point (Performance::new/from with &map, map, DifficultyAttributes, PerformanceAttributes, mode attributes; attrs.performance(); mode-specific builders) is run with the same Difficulty and score specification and must return the reference result; embedded difficulty attributes must equal the one-shot difficulty; results are fed back once more to catch drift.", BOUND),
    "C07": c(E1, "bounded-exhaustive enumeration of native maps x target modes x conversion-relevant mods x Difficulty settings", "DESIGN.md §3 C07",
             "The three conversion entry points, identity / who-converts / marking rules, re-conversion of converts, and every dispatching API (calculate_for_mode, strains_for_mode, gradual constructors, Performance::try_mode / mode_or_ignore, OsuPerformance::try_mode) are compared with the same call on the explicitly converted map.", BOUND),
    "C08": c(E1, "exhaustive enumeration of all valid legacy mod subsets in five representations, rate grid and DifficultyAdjust grid", "DESIGN.md §3 C08",
             "All subsets of the 12 legacy mods accepted by rosu-mods (x key mods for mania) in up to five representations, lazer rate mods on a 0.01 grid against clock_rate(r), lazer DifficultyAdjust on a 0.1 grid against Difficulty::ar/cs/hp/od(v,false); exact equality of difficulty, strains and three performance results on a pool of maps per mode configuration.", BOUND + "; mod combinations rosu-mods marks incompatible (DT+HT, EZ+HR, ...) are not enumerated"),
    "C09": c(E1, "bounded-exhaustive enumeration of (degenerate) maps x settings x prefixes x all consistent score states, Debug-dump scan", "DESIGN.md §3 C09",
             "Every grammar map incl. degenerate shapes under the settings menu, every prefix and every score state consistent with the prefix counts; all float fields of difficulty attributes, strains and performance attributes must be finite, all but ar/hp non-negative, accuracies in [0,1], zero generated hits => 0 pp.", BOUND),
    "C12": c(E1, "exhaustive enumeration of synthetic attribute shapes x provided/absent hit-result patterns x accuracy x priority x origin x passed_objects x combo", "DESIGN.md §3 C12",
             "2*10^7 (quick) score specifications on synthetic attribute shapes: misses <= objects, provided results that fit are kept and the results add up to the number of judgements, combo achievable, generate_state idempotent, calculate() == .state(generated).calculate().", BOUND + "; one open known finding (catch tiny droplet counts re-derived from accuracy) is pinned by the repository's own proptest"),
    "C13": c(E1, "exhaustive enumeration of small attribute shapes x miss counts x origins x tie-point target grid, brute-force optimum as oracle", "DESIGN.md §3 C13",
             "For every small shape, miss count, origin and priority the target grid contains every achievable accuracy and every midpoint between neighbours (+-1e-9); the generated state must have the given misses and be at least as close as the brute-force optimum over all distributions with the same misses.", BOUND),
    "C14": c(E1, "bounded-exhaustive enumeration of maps x mods x every passed_objects value, independent counter over the converted map", "DESIGN.md §3 C14",
             "An independent counter over the (converted) Beatmap is compared with the reported counts for every n in 0..=total+2: per-kind split, min(n,total), monotonicity, n > total == unlimited, is_convert.", BOUND),
    "C15": c(E2, "explicit-state BFS over iterator-protocol histories on live gradual calculators, reference = plain iteration + position", "DESIGN.md §4 C15",
             "For every grammar map and setting a breadth-first search over all histories of next / nth(k) (k in 0..3, N, N+1, usize::MAX) / len / size_hint plus terminal std adaptors (step_by, skip, collect, last, count, zip), and of next/nth/last/len on the gradual performance calculator; key = (position, calls after exhaustion).", BOUND),
    "C16": c(E1, "bounded-exhaustive enumeration of maps (long gaps, objects before time zero) x settings x prefixes, independent re-aggregation", "DESIGN.md §3 C16",
             "Peaks finite and >= 0, equal section counts across skills, section count equal to an independent count from the object times (rate 1), re-aggregated peaks reproduce stars (catch, mania) and flashlight (osu!).", BOUND),
    "C19": c(E1, "bounded-exhaustive enumeration of osu!standard maps (sounds, velocity points, versions) x key mods 1K-10K", "DESIGN.md §3 C19",
             "Every grammar osu! map is converted to taiko, catch and mania (no key mod and 1K-10K): ordering, durations, control points, one sound per taiko object, mania key count and column range (computed independently of the crate's clamping helper), catch untouched.", BOUND),
}
NOT_APPLICABLE = {}
for e in ENGINES:
    e["serves_properties"] = sorted(k for k, v in CHECKS.items() if v["engine"] == e["name"])
