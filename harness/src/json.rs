//! Minimal JSON writer (no third-party crates available offline besides rosu-pp's deps).

use std::fmt::Write;

#[derive(Clone, Debug)]
pub enum J {
    Null,
    Bool(bool),
    Int(i128),
    Num(f64),
    Str(String),
    Arr(Vec<J>),
    Obj(Vec<(String, J)>),
}

impl J {
    pub fn obj() -> Self {
        J::Obj(Vec::new())
    }

    pub fn set(&mut self, k: &str, v: J) -> &mut Self {
        if let J::Obj(ref mut items) = self {
            if let Some(item) = items.iter_mut().find(|(key, _)| key == k) {
                item.1 = v;
            } else {
                items.push((k.to_owned(), v));
            }
        }
        self
    }

    pub fn s(v: impl Into<String>) -> Self {
        J::Str(v.into())
    }

    pub fn i(v: impl TryInto<i128>) -> Self {
        J::Int(v.try_into().ok().unwrap_or(0))
    }

    pub fn render(&self) -> String {
        let mut out = String::new();
        self.write(&mut out, 0);
        out.push('\n');
        out
    }

    fn write(&self, out: &mut String, ind: usize) {
        match self {
            J::Null => out.push_str("null"),
            J::Bool(b) => {
                let _ = write!(out, "{b}");
            }
            J::Int(i) => {
                let _ = write!(out, "{i}");
            }
            J::Num(n) => {
                if n.is_finite() {
                    let _ = write!(out, "{n}");
                } else {
                    out.push_str("null");
                }
            }
            J::Str(s) => esc(s, out),
            J::Arr(items) => {
                if items.is_empty() {
                    out.push_str("[]");
                    return;
                }
                out.push_str("[\n");
                for (i, item) in items.iter().enumerate() {
                    pad(out, ind + 1);
                    item.write(out, ind + 1);
                    if i + 1 < items.len() {
                        out.push(',');
                    }
                    out.push('\n');
                }
                pad(out, ind);
                out.push(']');
            }
            J::Obj(items) => {
                if items.is_empty() {
                    out.push_str("{}");
                    return;
                }
                out.push_str("{\n");
                for (i, (k, v)) in items.iter().enumerate() {
                    pad(out, ind + 1);
                    esc(k, out);
                    out.push_str(": ");
                    v.write(out, ind + 1);
                    if i + 1 < items.len() {
                        out.push(',');
                    }
                    out.push('\n');
                }
                pad(out, ind);
                out.push('}');
            }
        }
    }
}

fn pad(out: &mut String, n: usize) {
    for _ in 0..n {
        out.push(' ');
    }
}

fn esc(s: &str, out: &mut String) {
    out.push('"');
    for c in s.chars() {
        match c {
            '"' => out.push_str("\\\""),
            '\\' => out.push_str("\\\\"),
            '\n' => out.push_str("\\n"),
            '\r' => out.push_str("\\r"),
            '\t' => out.push_str("\\t"),
            c if (c as u32) < 0x20 => {
                let _ = write!(out, "\\u{:04x}", c as u32);
            }
            c => out.push(c),
        }
    }
    out.push('"');
}
