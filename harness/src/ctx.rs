//! Check context: tiers, seeds, parallel exhaustive enumeration of indexed
//! universes, violation / known-finding bookkeeping, evidence, replay.

use std::{
    cell::RefCell,
    collections::BTreeMap,
    fs,
    panic::{self, AssertUnwindSafe},
    path::PathBuf,
    sync::{
        atomic::{AtomicBool, AtomicU64, Ordering},
        Mutex,
    },
    time::{Duration, Instant},
};

use crate::json::J;

#[derive(Copy, Clone, Debug, PartialEq, Eq)]
pub enum Tier {
    Quick,
    Thorough,
}

impl Tier {
    pub fn name(self) -> &'static str {
        match self {
            Tier::Quick => "quick",
            Tier::Thorough => "thorough",
        }
    }
}

#[derive(Clone, Debug)]
pub struct Violation {
    pub class: String,
    pub universe: String,
    pub idx: u64,
    pub msg: String,
}

#[derive(Clone, Debug)]
pub struct KnownFinding {
    pub property: String,
    pub class: String,
    pub text: String,
}

#[derive(Default, Clone, Debug)]
pub struct UniverseStat {
    pub total: u64,
    pub done: u64,
    pub capped: bool,
    pub note: String,
}

pub struct Ctx {
    pub id: &'static str,
    pub tier: Tier,
    pub seed: u64,
    pub replay: Option<(String, u64)>,
    /// worker mode: (universe, lo, hi, progress file)
    pub worker: Option<(String, u64, u64, String)>,
    pub threads: usize,
    start: Instant,
    deadline: Instant,
    evals: AtomicU64,
    transitions: AtomicU64,
    states: AtomicU64,
    nontrivial: AtomicU64,
    traces: AtomicU64,
    n_violations: AtomicU64,
    /// hangs / abnormal worker deaths that did not reproduce when the case was run again alone
    unconfirmed: AtomicU64,
    stop: AtomicBool,
    violations: Mutex<Vec<Violation>>,
    class_counts: Mutex<BTreeMap<String, u64>>,
    samples: Mutex<Vec<J>>,
    universes: Mutex<Vec<(String, UniverseStat)>>,
    extra: Mutex<Vec<(String, J)>>,
    assumptions: Mutex<Vec<String>>,
    known: Vec<KnownFinding>,
    rule: Mutex<String>,
    machinery_errors: Mutex<Vec<String>>,
    worker_exe: Mutex<Option<PathBuf>>,
    /// watchdog state of the worker: (case index or MAX, ms since start of the last heartbeat)
    hb: std::sync::Arc<(AtomicU64, AtomicU64)>,
}

thread_local! {
    static LAST_PANIC: RefCell<Option<String>> = const { RefCell::new(None) };
}

/// Per-thread accumulator handed to case bodies.
pub struct Local<'c> {
    pub ctx: &'c Ctx,
    pub universe: &'c str,
    pub idx: u64,
    total: u64,
    evals: u64,
    transitions: u64,
    states: u64,
    nontrivial: u64,
    traces: u64,
    case_nontrivial: bool,
}

impl Local<'_> {
    /// One implementation call whose result was compared with a reference prediction.
    #[inline]
    pub fn checked(&mut self, n: u64) {
        self.transitions += n;
        self.traces += n;
    }

    /// Distinct explored states (canonical keys / cases).
    #[inline]
    pub fn states(&mut self, n: u64) {
        self.states += n;
    }

    /// Mark the current case as non-trivial by the check's stated rule.
    #[inline]
    pub fn nontrivial(&mut self) {
        self.case_nontrivial = true;
    }

    /// Restart the per-call deadline of an isolated case (call between public API calls).
    #[inline]
    pub fn heartbeat(&self) {
        self.ctx.hb.1.store(self.ctx.start.elapsed().as_millis() as u64, Ordering::Release);
    }

    /// Whether the case body should provide a written-out sample.
    #[inline]
    pub fn want_sample(&self) -> bool {
        self.idx == 0 || self.idx == self.total / 2 || self.idx + 1 == self.total
    }

    pub fn sample(&self, j: J) {
        let mut s = self.ctx.samples.lock().unwrap();
        if s.len() < 12 {
            s.push(j);
        }
    }

    pub fn violation(&mut self, class: &str, msg: impl FnOnce() -> String) {
        self.ctx.n_violations.fetch_add(1, Ordering::Relaxed);
        *self.ctx.class_counts.lock().unwrap().entry(class.to_owned()).or_insert(0) += 1;
        let mut v = self.ctx.violations.lock().unwrap();
        // keep the first few per class (enumeration is simplest-first)
        let same = v.iter().filter(|x| x.class == class).count();
        if same < 8 {
            v.push(Violation {
                class: class.to_owned(),
                universe: self.universe.to_owned(),
                idx: self.idx,
                msg: msg(),
            });
        }
    }

    fn flush(&mut self) {
        let c = self.ctx;
        c.evals.fetch_add(self.evals, Ordering::Relaxed);
        c.transitions.fetch_add(self.transitions, Ordering::Relaxed);
        c.states.fetch_add(self.states, Ordering::Relaxed);
        c.nontrivial.fetch_add(self.nontrivial, Ordering::Relaxed);
        c.traces.fetch_add(self.traces, Ordering::Relaxed);
        self.evals = 0;
        self.transitions = 0;
        self.states = 0;
        self.nontrivial = 0;
        self.traces = 0;
    }
}

fn verif_root() -> PathBuf {
    std::env::var_os("VERIF_ROOT").map_or_else(|| PathBuf::from("/verif"), PathBuf::from)
}

impl Ctx {
    /// Parse `--tier`, `--replay`, env `VERIF_TIER`, `VERIF_SEED`.
    pub fn from_env(id: &'static str) -> Self {
        Self::from_env_caps(id, 40, 1500)
    }

    /// Like `from_env` with this check's own default wall caps (seconds) for the two tiers.
    pub fn from_env_caps(id: &'static str, quick_cap_s: u64, thorough_cap_s: u64) -> Self {
        let mut tier = match std::env::var("VERIF_TIER").as_deref() {
            Ok("thorough") => Tier::Thorough,
            _ => Tier::Quick,
        };
        let mut replay_path = None;
        let mut worker = None;
        let mut args = std::env::args().skip(1);
        while let Some(a) = args.next() {
            match a.as_str() {
                "--tier" => {
                    tier = match args.next().as_deref() {
                        Some("thorough") => Tier::Thorough,
                        _ => Tier::Quick,
                    }
                }
                "quick" => tier = Tier::Quick,
                "thorough" => tier = Tier::Thorough,
                "--replay" => replay_path = args.next(),
                "--worker" => {
                    let name = args.next().unwrap_or_default();
                    let lo = args.next().and_then(|x| x.parse().ok()).unwrap_or(0);
                    let hi = args.next().and_then(|x| x.parse().ok()).unwrap_or(0);
                    let pf = args.next().unwrap_or_default();
                    worker = Some((name, lo, hi, pf));
                }
                _ => {}
            }
        }
        let seed = std::env::var("VERIF_SEED")
            .ok()
            .and_then(|s| s.trim().parse::<i64>().ok())
            .map_or(0, |s| s.unsigned_abs());

        let mut replay = None;
        if let Some(p) = replay_path {
            let text = fs::read_to_string(&p).unwrap_or_else(|e| {
                eprintln!("MACHINERY: cannot read replay file {p}: {e}");
                std::process::exit(2);
            });
            let mut uni = None;
            let mut idx = None;
            for line in text.lines() {
                if let Some(v) = line.strip_prefix("universe=") {
                    uni = Some(v.trim().to_owned());
                } else if let Some(v) = line.strip_prefix("index=") {
                    idx = v.trim().parse::<u64>().ok();
                } else if let Some(v) = line.strip_prefix("tier=") {
                    tier = if v.trim() == "thorough" { Tier::Thorough } else { Tier::Quick };
                }
            }
            match (uni, idx) {
                (Some(u), Some(i)) => replay = Some((u, i)),
                _ => {
                    eprintln!("MACHINERY: replay file {p} lacks universe=/index= lines");
                    std::process::exit(2);
                }
            }
        }

        let cap_s: u64 = std::env::var("VERIF_CAP_S")
            .ok()
            .and_then(|s| s.parse().ok())
            .unwrap_or(match tier {
                Tier::Quick => quick_cap_s,
                Tier::Thorough => thorough_cap_s,
            });
        let threads = std::env::var("VERIF_THREADS")
            .ok()
            .and_then(|s| s.parse().ok())
            .unwrap_or_else(|| std::thread::available_parallelism().map_or(8, usize::from));

        // silent panic hook: the message is kept for the violation report
        panic::set_hook(Box::new(|info| {
            let msg = info.to_string();
            LAST_PANIC.with(|p| *p.borrow_mut() = Some(msg));
        }));

        let start = Instant::now();
        Self {
            id,
            tier,
            seed,
            replay,
            worker,
            threads,
            start,
            deadline: start + Duration::from_secs(cap_s),
            evals: AtomicU64::new(0),
            transitions: AtomicU64::new(0),
            states: AtomicU64::new(0),
            nontrivial: AtomicU64::new(0),
            traces: AtomicU64::new(0),
            n_violations: AtomicU64::new(0),
            unconfirmed: AtomicU64::new(0),
            stop: AtomicBool::new(false),
            violations: Mutex::new(Vec::new()),
            class_counts: Mutex::new(BTreeMap::new()),
            samples: Mutex::new(Vec::new()),
            universes: Mutex::new(Vec::new()),
            extra: Mutex::new(Vec::new()),
            assumptions: Mutex::new(Vec::new()),
            known: load_known(id),
            rule: Mutex::new(String::new()),
            machinery_errors: Mutex::new(Vec::new()),
            worker_exe: Mutex::new(None),
            hb: std::sync::Arc::new((AtomicU64::new(u64::MAX), AtomicU64::new(0))),
        }
    }

    pub fn quick(&self) -> bool {
        self.tier == Tier::Quick
    }

    /// `q` in the quick tier, `t` in the thorough tier.
    pub fn pick<T>(&self, q: T, t: T) -> T {
        if self.quick() {
            q
        } else {
            t
        }
    }

    pub fn rule(&self, s: &str) {
        let mut r = self.rule.lock().unwrap();
        if !r.is_empty() {
            r.push_str(" | ");
        }
        r.push_str(s);
    }

    pub fn assume(&self, s: &str) {
        self.assumptions.lock().unwrap().push(s.to_owned());
    }

    pub fn extra(&self, k: &str, v: J) {
        let mut e = self.extra.lock().unwrap();
        if let Some(item) = e.iter_mut().find(|(key, _)| key == k) {
            item.1 = v;
        } else {
            e.push((k.to_owned(), v));
        }
    }

    /// (violation counts per class, evaluated cases) — for self-tests.
    pub fn class_summary(&self) -> (BTreeMap<String, u64>, u64) {
        (self.class_counts.lock().unwrap().clone(), self.evals.load(Ordering::Relaxed))
    }

    /// Use another build of the same checker (e.g. the `vdebug` profile with overflow checks) as worker executable
    /// for the following isolated universes; `None` = this executable.
    pub fn set_worker_exe(&self, p: Option<PathBuf>) {
        *self.worker_exe.lock().unwrap() = p;
    }

    pub fn machinery_error(&self, s: String) {
        self.machinery_errors.lock().unwrap().push(s);
    }

    /// Whether the internal wall cap of this tier has passed (custom loops honour it like `universe` does).
    pub fn past_deadline(&self) -> bool {
        self.replay.is_none() && Instant::now() >= self.deadline
    }

    pub fn elapsed(&self) -> f64 {
        self.start.elapsed().as_secs_f64()
    }

    /// Exhaustively enumerate `0..total` of the universe `name` on all cores.
    ///
    /// Each index is one case; the body decides and reports through `Local`.
    /// A panic inside a case is a violation of class `panic`.
    pub fn universe<F>(&self, name: &str, total: u64, body: F)
    where
        F: Fn(u64, &mut Local<'_>) + Sync,
    {
        if self.worker.is_some() {
            return;
        }
        let (lo, hi) = match &self.replay {
            Some((u, i)) if u == name => (*i, (*i + 1).min(total)),
            Some(_) => return,
            None => (0, total),
        };

        let next = AtomicU64::new(lo);
        let done = AtomicU64::new(0);
        let capped = AtomicBool::new(false);
        let threads = if hi - lo < 64 { 1 } else { self.threads };
        let chunk = ((hi - lo) / (threads as u64 * 64)).clamp(1, 4096);

        std::thread::scope(|s| {
            for _ in 0..threads {
                s.spawn(|| {
                    let mut l = Local {
                        ctx: self,
                        universe: name,
                        idx: 0,
                        total,
                        evals: 0,
                        transitions: 0,
                        states: 0,
                        nontrivial: 0,
                        traces: 0,
                        case_nontrivial: false,
                    };
                    loop {
                        if self.stop.load(Ordering::Relaxed) {
                            break;
                        }
                        if Instant::now() >= self.deadline && self.replay.is_none() {
                            // only a cap if cases are left that nobody has taken
                            if next.load(Ordering::Relaxed) < hi {
                                capped.store(true, Ordering::Relaxed);
                            }
                            break;
                        }
                        let a = next.fetch_add(chunk, Ordering::Relaxed);
                        if a >= hi {
                            break;
                        }
                        let b = (a + chunk).min(hi);
                        for i in a..b {
                            l.idx = i;
                            l.case_nontrivial = false;
                            let r = panic::catch_unwind(AssertUnwindSafe(|| body(i, &mut l)));
                            if r.is_err() {
                                let msg = LAST_PANIC
                                    .with(|p| p.borrow_mut().take())
                                    .unwrap_or_else(|| "panic".to_owned());
                                l.violation("panic", || format!("panic inside case: {msg}"));
                            }
                            l.evals += 1;
                            if l.case_nontrivial {
                                l.nontrivial += 1;
                            }
                        }
                        done.fetch_add(b - a, Ordering::Relaxed);
                        l.flush();
                    }
                    l.flush();
                });
            }
        });

        let stat = UniverseStat {
            total,
            done: done.load(Ordering::Relaxed),
            capped: capped.load(Ordering::Relaxed),
            note: String::new(),
        };
        self.universes.lock().unwrap().push((name.to_owned(), stat));
    }

    /// Add to the global counters from outside a universe (e.g. subprocess results).
    pub fn add_counts(&self, evals: u64, transitions: u64, states: u64, nontrivial: u64) {
        self.evals.fetch_add(evals, Ordering::Relaxed);
        self.transitions.fetch_add(transitions, Ordering::Relaxed);
        self.traces.fetch_add(transitions, Ordering::Relaxed);
        self.states.fetch_add(states, Ordering::Relaxed);
        self.nontrivial.fetch_add(nontrivial, Ordering::Relaxed);
    }

    pub fn add_violation(&self, v: Violation) {
        self.n_violations.fetch_add(1, Ordering::Relaxed);
        *self.class_counts.lock().unwrap().entry(v.class.clone()).or_insert(0) += 1;
        self.violations.lock().unwrap().push(v);
    }

    pub fn add_sample(&self, j: J) {
        let mut s = self.samples.lock().unwrap();
        if s.len() < 12 {
            s.push(j);
        }
    }

    pub fn note_universe(&self, name: &str, stat: UniverseStat) {
        self.universes.lock().unwrap().push((name.to_owned(), stat));
    }

    /// Child mode (a second build of the same checker run by the parent): print counts, universes and violations in a
    /// line protocol and exit 0; the parent merges them with [`Ctx::merge_child`].
    pub fn finish_as_child(self) -> ! {
        use std::io::Write;
        let out = std::io::stdout();
        let mut o = out.lock();
        let _ = writeln!(
            o,
            "CHILD-COUNTS\t{}\t{}\t{}\t{}\t{}",
            self.evals.load(Ordering::Relaxed),
            self.transitions.load(Ordering::Relaxed),
            self.states.load(Ordering::Relaxed),
            self.nontrivial.load(Ordering::Relaxed),
            self.traces.load(Ordering::Relaxed)
        );
        for (name, u) in self.universes.lock().unwrap().iter() {
            let _ = writeln!(o, "CHILD-UNIVERSE\t{name}\t{}\t{}\t{}\t{}", u.total, u.done, u.capped, esc_line(&u.note));
        }
        for v in self.violations.lock().unwrap().iter() {
            let _ = writeln!(o, "CHILD-VIOLATION\t{}\t{}\t{}\t{}", v.class, v.universe, v.idx, esc_line(&v.msg));
        }
        for (c, n) in self.class_counts.lock().unwrap().iter() {
            let _ = writeln!(o, "CHILD-CLASS\t{c}\t{n}");
        }
        for sm in self.samples.lock().unwrap().iter().take(4) {
            let _ = writeln!(o, "CHILD-SAMPLE\t{}", esc_line(sm.render().trim_end()));
        }
        for (k, v) in self.extra.lock().unwrap().iter() {
            let _ = writeln!(o, "CHILD-EXTRA\t{k}\t{}", esc_line(v.render().trim_end()));
        }
        for m in self.machinery_errors.lock().unwrap().iter() {
            let _ = writeln!(o, "CHILD-MACHINERY\t{}", esc_line(m));
        }
        let _ = writeln!(o, "CHILD-DONE");
        let _ = o.flush();
        std::process::exit(0);
    }

    /// Merge the line-protocol output of a child run; universe names and violation classes get `prefix`.
    pub fn merge_child(&self, text: &str, prefix: &str) -> bool {
        let mut done = false;
        for line in text.lines() {
            let mut f = line.split('\t');
            match f.next() {
                Some("CHILD-COUNTS") => {
                    let n: Vec<u64> = f.filter_map(|x| x.parse().ok()).collect();
                    if n.len() == 5 {
                        self.evals.fetch_add(n[0], Ordering::Relaxed);
                        self.transitions.fetch_add(n[1], Ordering::Relaxed);
                        self.states.fetch_add(n[2], Ordering::Relaxed);
                        self.nontrivial.fetch_add(n[3], Ordering::Relaxed);
                        self.traces.fetch_add(n[4], Ordering::Relaxed);
                    }
                }
                Some("CHILD-UNIVERSE") => {
                    let name = f.next().unwrap_or("");
                    let total = f.next().and_then(|x| x.parse().ok()).unwrap_or(0);
                    let done_n = f.next().and_then(|x| x.parse().ok()).unwrap_or(0);
                    let capped = f.next() == Some("true");
                    let note = unesc_line(f.next().unwrap_or(""));
                    self.universes.lock().unwrap().push((format!("{prefix}{name}"), UniverseStat { total, done: done_n, capped, note }));
                }
                Some("CHILD-VIOLATION") => {
                    let class = format!("{prefix}{}", f.next().unwrap_or(""));
                    let universe = format!("{prefix}{}", f.next().unwrap_or(""));
                    let idx = f.next().and_then(|x| x.parse().ok()).unwrap_or(0);
                    let msg = unesc_line(f.next().unwrap_or(""));
                    self.violations.lock().unwrap().push(Violation { class, universe, idx, msg });
                }
                Some("CHILD-CLASS") => {
                    let class = format!("{prefix}{}", f.next().unwrap_or(""));
                    let n: u64 = f.next().and_then(|x| x.parse().ok()).unwrap_or(0);
                    self.n_violations.fetch_add(n, Ordering::Relaxed);
                    *self.class_counts.lock().unwrap().entry(class).or_insert(0) += n;
                }
                Some("CHILD-SAMPLE") => self.add_sample(J::s(format!("[{prefix}] {}", unesc_line(f.next().unwrap_or(""))))),
                Some("CHILD-EXTRA") => {
                    let k = f.next().unwrap_or("");
                    self.extra(&format!("{prefix}{k}"), J::s(unesc_line(f.next().unwrap_or(""))));
                }
                Some("CHILD-MACHINERY") => self.machinery_error(format!("[{prefix}] {}", unesc_line(f.next().unwrap_or("")))),
                Some("CHILD-DONE") => done = true,
                _ => {}
            }
        }
        done
    }

    /// Write evidence, print verdict lines, exit.
    pub fn finish(self) -> ! {
        if self.worker.is_some() {
            eprintln!("MACHINERY: worker reached finish() — unknown universe name");
            std::process::exit(3);
        }
        let root = verif_root();
        let wall = self.start.elapsed().as_secs_f64();
        let violations = self.violations.lock().unwrap().clone();
        let unis = self.universes.lock().unwrap().clone();
        let capped = unis.iter().any(|(_, u)| u.capped);
        let machinery = self.machinery_errors.lock().unwrap().clone();

        // triage
        let mut by_class: BTreeMap<String, Vec<&Violation>> = BTreeMap::new();
        for v in &violations {
            by_class.entry(v.class.clone()).or_default().push(v);
        }
        let mut unlisted = 0u64;
        let mut known_hits = 0u64;
        let class_counts = self.class_counts.lock().unwrap().clone();
        let mut lines = Vec::new();
        let rdir = root.join("replays").join(self.id);
        for (class, vs) in &by_class {
            if let Some(k) = self
                .known
                .iter()
                .find(|k| k.property == self.id && &k.class == class && !class.is_empty())
            {
                known_hits += class_counts.get(class).copied().unwrap_or(vs.len() as u64);
                lines.push(format!(
                    "KNOWN-FINDING: property={} class={} {} [first case: universe={} index={}]",
                    self.id, class, k.text, vs[0].universe, vs[0].idx
                ));
            } else {
                for (n, v) in vs.iter().enumerate().take(4) {
                    unlisted += 1;
                    let _ = fs::create_dir_all(&rdir);
                    let fname = format!(
                        "{}-{}-{}.replay",
                        if class.is_empty() { "unclassified" } else { class },
                        v.universe.replace(['/', ' '], "_"),
                        v.idx
                    );
                    let path = rdir.join(fname);
                    let body = format!(
                        "property={}\ntier={}\nuniverse={}\nindex={}\nclass={}\n\n{}\n\nreplay: /verif/bin/check {} --replay {}\n",
                        self.id,
                        self.tier.name(),
                        v.universe,
                        v.idx,
                        class,
                        v.msg,
                        self.id,
                        path.display()
                    );
                    let _ = fs::write(&path, body);
                    lines.push(format!(
                        "VIOLATION property={} replay={}",
                        self.id,
                        path.display()
                    ));
                    if n == 0 {
                        let first = v.msg.lines().take(12).collect::<Vec<_>>().join("\n    ");
                        lines.push(format!("  class={class} first case:\n    {first}"));
                    }
                }
            }
        }
        let total_viol = self.n_violations.load(Ordering::Relaxed);

        // evidence
        let mut cov = J::obj();
        let evals = self.evals.load(Ordering::Relaxed);
        cov.set("states", J::i(self.states.load(Ordering::Relaxed).max(evals)));
        cov.set("transitions", J::i(self.transitions.load(Ordering::Relaxed)));
        cov.set(
            "traces_validated_against_impl",
            J::i(self.traces.load(Ordering::Relaxed)),
        );
        cov.set("evaluations", J::i(evals));
        cov.set(
            "distinct_nontrivial",
            J::i(self.nontrivial.load(Ordering::Relaxed)),
        );
        cov.set("rule", J::s(self.rule.lock().unwrap().clone()));
        let mut samples = self.samples.lock().unwrap().clone();
        if samples.is_empty() {
            samples.push(J::s("(no sample recorded)"));
        }
        cov.set("samples", J::Arr(samples));
        cov.set("exhaustive", J::Bool(!capped && self.replay.is_none()));
        let mut uj = Vec::new();
        for (name, u) in &unis {
            let mut o = J::obj();
            o.set("name", J::s(name.clone()));
            o.set("cases_in_universe", J::i(u.total));
            o.set("cases_completed", J::i(u.done));
            o.set("cap_hit", J::Bool(u.capped));
            if !u.note.is_empty() {
                o.set("note", J::s(u.note.clone()));
            }
            uj.push(o);
        }
        cov.set("universes", J::Arr(uj));
        cov.set("cap_hit", J::Bool(capped));
        cov.set("hangs_or_worker_deaths_not_reproduced_on_rerun", J::i(self.unconfirmed.load(Ordering::Relaxed)));
        cov.set("known_finding_cases", J::i(known_hits));
        cov.set("threads", J::i(self.threads as u64));
        for (k, v) in self.extra.lock().unwrap().iter() {
            cov.set(k, v.clone());
        }

        let mut ev = J::obj();
        ev.set("property_id", J::s(self.id));
        ev.set("tier", J::s(self.tier.name()));
        ev.set("seed", J::i(self.seed));
        ev.set("level", J::s("model_checking"));
        ev.set("coverage", cov);
        ev.set(
            "assumptions",
            J::Arr(
                self.assumptions
                    .lock()
                    .unwrap()
                    .iter()
                    .map(|s| J::s(s.clone()))
                    .collect(),
            ),
        );
        ev.set("wall_s", J::Num((wall * 1000.0).round() / 1000.0));
        ev.set("violations", J::i(total_viol - known_hits.min(total_viol)));

        if self.replay.is_none() && std::env::var_os("VERIF_NO_EVIDENCE").is_none() {
            let edir = root.join("evidence");
            let _ = fs::create_dir_all(&edir);
            let path = edir.join(format!("{}.json", self.id));
            if let Err(e) = fs::write(&path, ev.render()) {
                eprintln!("MACHINERY: cannot write evidence {}: {e}", path.display());
                std::process::exit(2);
            }
        }

        for l in &lines {
            println!("{l}");
        }
        println!(
            "SUMMARY property={} tier={} cases={} checked_calls={} nontrivial={} violations_total={} unlisted={} known={} capped={} wall_s={:.1}",
            self.id,
            self.tier.name(),
            evals,
            self.transitions.load(Ordering::Relaxed),
            self.nontrivial.load(Ordering::Relaxed),
            total_viol,
            unlisted,
            known_hits,
            capped,
            wall
        );
        for (name, u) in &unis {
            println!(
                "  universe {name}: {}/{}{}",
                u.done,
                u.total,
                if u.capped { " (CAP HIT)" } else { "" }
            );
        }
        for (c, n) in &class_counts {
            println!("  violation class '{c}': {n} cases");
        }
        if !machinery.is_empty() {
            for m in &machinery {
                eprintln!("MACHINERY: {m}");
            }
            std::process::exit(2);
        }
        std::process::exit(i32::from(unlisted > 0));
    }
}

fn load_known(id: &str) -> Vec<KnownFinding> {
    let path = verif_root().join("KNOWN_FINDINGS.txt");
    let Ok(text) = fs::read_to_string(path) else {
        return Vec::new();
    };
    let mut out = Vec::new();
    for line in text.lines() {
        let Some(rest) = line.strip_prefix("open:") else {
            continue;
        };
        let mut property = String::new();
        let mut class = String::new();
        let mut words = Vec::new();
        for w in rest.split_whitespace() {
            if let Some(v) = w.strip_prefix("property=") {
                property = v.to_owned();
            } else if let Some(v) = w.strip_prefix("class=") {
                class = v.to_owned();
            } else {
                words.push(w);
            }
        }
        if property == id && !class.is_empty() {
            out.push(KnownFinding {
                property,
                class,
                text: words.join(" "),
            });
        }
    }
    out
}

/// Mixed-radix decoding of a case index: `digits[k] < radices[k]`, least significant first.
pub fn unrank(mut idx: u64, radices: &[u64], digits: &mut [u64]) {
    for (d, r) in digits.iter_mut().zip(radices) {
        *d = idx % r;
        idx /= r;
    }
}

pub fn product(radices: &[u64]) -> u64 {
    radices.iter().product()
}

// ------------------------------------------------------------------------------------------------
// Isolated universes: every batch of cases runs in a worker subprocess (address-space limit,
// per-case wall-clock deadline); a dead or late worker pins the culprit case and is restarted
// behind it. Used where "returns normally" is the property (C05, C06).

fn esc_line(s: &str) -> String {
    s.replace('\\', "\\\\").replace('\n', "\\n").replace('\t', "\\t")
}

fn unesc_line(s: &str) -> String {
    let mut out = String::with_capacity(s.len());
    let mut it = s.chars();
    while let Some(c) = it.next() {
        if c == '\\' {
            match it.next() {
                Some('n') => out.push('\n'),
                Some('t') => out.push('\t'),
                Some('\\') => out.push('\\'),
                Some(o) => {
                    out.push('\\');
                    out.push(o);
                }
                None => out.push('\\'),
            }
        } else {
            out.push(c);
        }
    }
    out
}

impl Ctx {
    /// Like [`Ctx::universe`] but every case runs inside a worker subprocess with an address-space
    /// limit of `mem_mib` and a wall-clock deadline of `case_secs` per case. Abnormal worker death
    /// is a violation of class `abort`, a missed deadline one of class `hang`, attributed to the
    /// case that was running.
    pub fn universe_isolated<F>(&self, name: &str, total: u64, case_secs: f64, mem_mib: u64, body: F)
    where
        F: Fn(u64, &mut Local<'_>) + Sync,
    {
        self.universe_isolated_with(name, total, case_secs, mem_mib, body, |_, class| class.to_owned());
    }

    /// As [`Ctx::universe_isolated`]; `classify(idx, "abort" | "hang")` runs in the parent and may refine the class of a
    /// dead or late case from its index (it must not execute the case).
    pub fn universe_isolated_with<F, C>(&self, name: &str, total: u64, case_secs: f64, mem_mib: u64, body: F, classify: C)
    where
        F: Fn(u64, &mut Local<'_>) + Sync,
        C: Fn(u64, &str) -> String + Sync,
    {
        use std::io::Write;
        use std::os::unix::fs::FileExt;

        // ---- worker side
        if let Some((wname, lo, hi, pf)) = &self.worker {
            if wname != name {
                return;
            }
            let file = fs::OpenOptions::new().write(true).create(true).truncate(false).open(pf).ok();
            let started = self.hb.clone();
            {
                let started = started.clone();
                let t0 = self.start;
                // a confirmation run (see the parent side) grants four times the deadline
                let limit = case_secs * std::env::var("VERIF_DEADLINE_FACTOR").ok().and_then(|f| f.parse::<f64>().ok()).unwrap_or(1.0);
                std::thread::spawn(move || loop {
                    std::thread::sleep(Duration::from_millis(50));
                    let idx = started.0.load(Ordering::Acquire);
                    if idx == u64::MAX {
                        continue;
                    }
                    let since = started.1.load(Ordering::Acquire);
                    let now = t0.elapsed().as_millis() as u64;
                    if now.saturating_sub(since) as f64 > limit * 1000.0 {
                        // re-check that the same case is still running
                        if started.0.load(Ordering::Acquire) == idx {
                            println!("WORKER-HANG\t{idx}");
                            let _ = std::io::stdout().flush();
                            std::process::exit(97);
                        }
                    }
                });
            }
            let mut l = Local {
                ctx: self,
                universe: name,
                idx: 0,
                total,
                evals: 0,
                transitions: 0,
                states: 0,
                nontrivial: 0,
                traces: 0,
                case_nontrivial: false,
            };
            let out = std::io::stdout();
            for i in *lo..*hi {
                if let Some(f) = &file {
                    let _ = f.write_all_at(&i.to_le_bytes(), 0);
                }
                started.1.store(self.start.elapsed().as_millis() as u64, Ordering::Release);
                started.0.store(i, Ordering::Release);
                l.idx = i;
                l.case_nontrivial = false;
                let r = panic::catch_unwind(AssertUnwindSafe(|| body(i, &mut l)));
                if r.is_err() {
                    let msg = LAST_PANIC.with(|p| p.borrow_mut().take()).unwrap_or_else(|| "panic".to_owned());
                    l.violation("panic", || format!("panic inside case: {msg}"));
                }
                l.evals += 1;
                if l.case_nontrivial {
                    l.nontrivial += 1;
                }
            }
            started.0.store(u64::MAX, Ordering::Release);
            let mut o = out.lock();
            for v in self.violations.lock().unwrap().iter() {
                let _ = writeln!(o, "WORKER-VIOLATION\t{}\t{}\t{}", v.class, v.idx, esc_line(&v.msg));
            }
            for (c, n) in self.class_counts.lock().unwrap().iter() {
                let _ = writeln!(o, "WORKER-CLASS\t{c}\t{n}");
            }
            for sm in self.samples.lock().unwrap().iter() {
                let t = match sm {
                    J::Str(t) => t.clone(),
                    other => other.render(),
                };
                let _ = writeln!(o, "WORKER-SAMPLE\t{}", esc_line(t.trim_end()));
            }
            let _ = writeln!(o, "WORKER-DONE\t{}\t{}\t{}\t{}\t{}", l.evals, l.transitions, l.states, l.nontrivial, l.traces);
            let _ = o.flush();
            std::process::exit(0);
        }

        // ---- replay: run the single case in-process
        if let Some((u, i)) = &self.replay {
            if u == name {
                self.universe_inproc(name, total, *i, (*i + 1).min(total), &body);
            }
            return;
        }

        // ---- parent side
        let exe = self.worker_exe.lock().unwrap().clone().unwrap_or_else(|| std::env::current_exe().expect("current_exe"));
        if !exe.exists() {
            self.machinery_error(format!("worker executable {} missing", exe.display()));
            return;
        }
        let next = AtomicU64::new(0);
        let done = AtomicU64::new(0);
        let capped = AtomicBool::new(false);
        let chunk = (total / (self.threads as u64 * 8)).clamp(1, 24);
        let tmp = verif_root().join("target").join("worker-progress");
        let _ = fs::create_dir_all(&tmp);
        std::thread::scope(|s| {
            for t in 0..self.threads {
                let (next, done, capped, exe, tmp, classify) = (&next, &done, &capped, &exe, &tmp, &classify);
                s.spawn(move || {
                    let pf = tmp.join(format!("{}-{}-{t}.idx", self.id, std::process::id()));
                    loop {
                        if Instant::now() >= self.deadline {
                            if next.load(Ordering::Relaxed) < total {
                                capped.store(true, Ordering::Relaxed);
                            }
                            break;
                        }
                        // the simplest cases come first and are where corner values cluster: hand them out in pairs
                        let a = next.fetch_add(2, Ordering::Relaxed);
                        let (a, b) = if a < 512 { (a, (a + 2).min(total)) } else { let a2 = next.fetch_add(chunk - 2, Ordering::Relaxed); (a2 - 2, (a2 + chunk - 2).min(total)) };
                        if a >= total {
                            break;
                        }
                        let mut lo = a;
                        while lo < b {
                            let _ = fs::write(&pf, u64::MAX.to_le_bytes());
                            let script = format!("ulimit -v {}; exec \"$0\" \"$@\"", mem_mib * 1024);
                            let outp = std::process::Command::new("sh")
                                .arg("-c")
                                .arg(&script)
                                .arg(exe)
                                .args(["--tier", self.tier.name(), "--worker", name, &lo.to_string(), &b.to_string()])
                                .arg(&pf)
                                .env("VERIF_THREADS", "1")
                                .stderr(std::process::Stdio::null())
                                .output();
                            let Ok(outp) = outp else {
                                self.machinery_error(format!("cannot spawn worker for {name} [{lo},{b})"));
                                return;
                            };
                            let text = String::from_utf8_lossy(&outp.stdout);
                            let mut finished = false;
                            let mut hang_idx = None;
                            for line in text.lines() {
                                let mut f = line.split('\t');
                                match f.next() {
                                    Some("WORKER-VIOLATION") => {
                                        let class = f.next().unwrap_or("").to_owned();
                                        let idx = f.next().and_then(|x| x.parse().ok()).unwrap_or(0);
                                        let msg = unesc_line(f.next().unwrap_or(""));
                                        let mut v = self.violations.lock().unwrap();
                                        if v.iter().filter(|x| x.class == class).count() < 8 {
                                            v.push(Violation { class, universe: name.to_owned(), idx, msg });
                                        }
                                    }
                                    Some("WORKER-CLASS") => {
                                        let class = f.next().unwrap_or("").to_owned();
                                        let n: u64 = f.next().and_then(|x| x.parse().ok()).unwrap_or(0);
                                        self.n_violations.fetch_add(n, Ordering::Relaxed);
                                        *self.class_counts.lock().unwrap().entry(class).or_insert(0) += n;
                                    }
                                    Some("WORKER-SAMPLE") => self.add_sample(J::s(unesc_line(f.next().unwrap_or("")))),
                                    Some("WORKER-HANG") => hang_idx = f.next().and_then(|x| x.parse::<u64>().ok()),
                                    Some("WORKER-DONE") => {
                                        let n: Vec<u64> = f.filter_map(|x| x.parse().ok()).collect();
                                        if n.len() == 5 {
                                            self.evals.fetch_add(n[0], Ordering::Relaxed);
                                            self.transitions.fetch_add(n[1], Ordering::Relaxed);
                                            self.states.fetch_add(n[2], Ordering::Relaxed);
                                            self.nontrivial.fetch_add(n[3], Ordering::Relaxed);
                                            self.traces.fetch_add(n[4], Ordering::Relaxed);
                                            finished = true;
                                        }
                                    }
                                    _ => {}
                                }
                            }
                            if finished && outp.status.success() {
                                lo = b;
                                continue;
                            }
                            // abnormal end: pin the culprit
                            let culprit = hang_idx.or_else(|| {
                                fs::read(&pf).ok().and_then(|bytes| bytes.get(..8).map(|x| u64::from_le_bytes(x.try_into().unwrap()))).filter(|x| *x != u64::MAX)
                            });
                            let Some(c) = culprit.filter(|c| *c >= lo && *c < b) else {
                                self.machinery_error(format!("worker for {name} [{lo},{b}) died ({:?}) without a usable progress record", outp.status));
                                return;
                            };
                            // A hang or an abnormal death must be reproducible to count: the case is run once more, alone, in a
                            // fresh worker with four times the deadline. (A cold start right after a restore, a loaded machine or
                            // the kernel's OOM killer can make one execution slow or kill it; the same case failing twice cannot be
                            // blamed on that.) If the confirmation run completes, its own verdicts are taken instead.
                            {
                                let script = format!("ulimit -v {}; exec \"$0\" \"$@\"", mem_mib * 1024);
                                let pf2 = pf.with_extension("confirm");
                                let _ = fs::write(&pf2, u64::MAX.to_le_bytes());
                                let again = std::process::Command::new("sh")
                                    .arg("-c")
                                    .arg(&script)
                                    .arg(exe)
                                    .args(["--tier", self.tier.name(), "--worker", name, &c.to_string(), &(c + 1).to_string()])
                                    .arg(&pf2)
                                    .env("VERIF_THREADS", "1")
                                    .env("VERIF_DEADLINE_FACTOR", "4")
                                    .stderr(std::process::Stdio::null())
                                    .output();
                                let _ = fs::remove_file(&pf2);
                                if let Ok(again) = again {
                                    let t2 = String::from_utf8_lossy(&again.stdout);
                                    let done2 = t2.lines().any(|l| l.starts_with("WORKER-DONE"));
                                    if again.status.success() && done2 && !t2.lines().any(|l| l.starts_with("WORKER-HANG")) {
                                        // not reproducible: take the verdicts of the confirmation run
                                        for line in t2.lines() {
                                            let mut f = line.split('\t');
                                            match f.next() {
                                                Some("WORKER-VIOLATION") => {
                                                    let class = f.next().unwrap_or("").to_owned();
                                                    let idx = f.next().and_then(|x| x.parse().ok()).unwrap_or(0);
                                                    let msg = unesc_line(f.next().unwrap_or(""));
                                                    let mut v = self.violations.lock().unwrap();
                                                    if v.iter().filter(|x| x.class == class).count() < 8 {
                                                        v.push(Violation { class, universe: name.to_owned(), idx, msg });
                                                    }
                                                }
                                                Some("WORKER-CLASS") => {
                                                    let class = f.next().unwrap_or("").to_owned();
                                                    let n: u64 = f.next().and_then(|x| x.parse().ok()).unwrap_or(0);
                                                    self.n_violations.fetch_add(n, Ordering::Relaxed);
                                                    *self.class_counts.lock().unwrap().entry(class).or_insert(0) += n;
                                                }
                                                Some("WORKER-DONE") => {
                                                    let n: Vec<u64> = f.filter_map(|x| x.parse().ok()).collect();
                                                    if n.len() == 5 {
                                                        self.transitions.fetch_add(n[1], Ordering::Relaxed);
                                                        self.states.fetch_add(n[2], Ordering::Relaxed);
                                                        self.nontrivial.fetch_add(n[3], Ordering::Relaxed);
                                                        self.traces.fetch_add(n[4], Ordering::Relaxed);
                                                    }
                                                }
                                                _ => {}
                                            }
                                        }
                                        self.unconfirmed.fetch_add(1, Ordering::Relaxed);
                                        self.evals.fetch_add(c - lo + 1, Ordering::Relaxed);
                                        lo = c + 1;
                                        continue;
                                    }
                                }
                            }
                            let (class, what) = if hang_idx.is_some() {
                                ("hang", format!("case did not return within {case_secs} s, and not within {} s when run again alone", case_secs * 4.0))
                            } else {
                                ("abort", format!("worker process died: {:?} (address-space limit {mem_mib} MiB), and again when the case was run alone", outp.status))
                            };
                            let class = classify(c, class);
                            let class = class.as_str();
                            self.n_violations.fetch_add(1, Ordering::Relaxed);
                            *self.class_counts.lock().unwrap().entry(class.to_owned()).or_insert(0) += 1;
                            {
                                let mut v = self.violations.lock().unwrap();
                                if v.iter().filter(|x| x.class == class).count() < 8 {
                                    v.push(Violation { class: class.to_owned(), universe: name.to_owned(), idx: c, msg: format!("{what}\n(the cases before index {c} of this batch completed; replaying re-executes the case in-process)") });
                                }
                            }
                            // counts of the cases before the culprit are lost with the worker; count them as evaluated
                            self.evals.fetch_add(c - lo + 1, Ordering::Relaxed);
                            lo = c + 1;
                        }
                        done.fetch_add(b - a, Ordering::Relaxed);
                    }
                    let _ = fs::remove_file(&pf);
                });
            }
        });
        if std::env::var_os("VERIF_TRACE").is_some() {
            eprintln!("TRACE {:.1}s universe {name} done", self.elapsed());
        }
        self.universes.lock().unwrap().push((
            name.to_owned(),
            UniverseStat { total, done: done.load(Ordering::Relaxed), capped: capped.load(Ordering::Relaxed), note: format!("isolated: worker subprocesses, {case_secs} s per case, {mem_mib} MiB address space") },
        ));
    }

    fn universe_inproc<F>(&self, name: &str, total: u64, lo: u64, hi: u64, body: &F)
    where
        F: Fn(u64, &mut Local<'_>) + Sync,
    {
        let mut l = Local { ctx: self, universe: name, idx: 0, total, evals: 0, transitions: 0, states: 0, nontrivial: 0, traces: 0, case_nontrivial: false };
        for i in lo..hi {
            l.idx = i;
            l.case_nontrivial = false;
            let r = panic::catch_unwind(AssertUnwindSafe(|| body(i, &mut l)));
            if r.is_err() {
                let msg = LAST_PANIC.with(|p| p.borrow_mut().take()).unwrap_or_else(|| "panic".to_owned());
                l.violation("panic", || format!("panic inside case: {msg}"));
            }
            l.evals += 1;
            if l.case_nontrivial {
                l.nontrivial += 1;
            }
        }
        l.flush();
        self.universes.lock().unwrap().push((name.to_owned(), UniverseStat { total, done: hi - lo, capped: false, note: "replay".into() }));
    }
}
