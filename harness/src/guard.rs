//! E4 — shared-access preemption ("page guard").
//!
//! E3 switches threads only between public API calls. That is complete exactly as long as two
//! calculations share no *mutable* location. E4 checks that premise on every run and, where it does
//! not hold, explores the schedules E3 cannot see:
//!
//! * the **guarded regions** are (a) every writable static of the library crates found in this
//!   binary's own symbol table (`rosu_pp`, `rosu_map`, `rosu_mods`; `.data` / `.bss`, not RELRO, not
//!   TLS), and (b) the pages into which the harness places the inputs that the threads share by
//!   reference (the `Beatmap` structs);
//! * the pages holding them are `mprotect`ed to `PROT_NONE` while two real OS threads execute their
//!   jobs under a baton; every access faults, the `SIGSEGV` handler classifies it (read / write,
//!   which region), un-protects the page, single-steps the instruction with the x86 trap flag and
//!   re-protects in the `SIGTRAP` handler;
//! * a *scheduling point* is every write to a guarded region and every read of a location that was
//!   written by some job (profile runs of the jobs alone, plus writes seen in this run), besides
//!   thread start and the call boundaries. At each point the explorer may hand the baton to the
//!   other thread; all choice vectors with at most `bound` preemptions are enumerated depth-first,
//!   each execution in a process of its own (statics keep state, so executions must not share an
//!   address space);
//! * spinning (the same thread re-reading the same location over and over, e.g. waiting for a lock
//!   that the preempted thread holds) is made visible: after a few repetitions the read stops being
//!   a branching point and the baton is passed on without cost.
//!
//! On a tree without shared mutable state there are no writes, hence no hot location, and the only
//! points are thread start and call boundaries: E4 then *proves the premise of E3 for the jobs it
//! ran* and costs a handful of executions per job pair.

#![allow(clippy::missing_safety_doc)]

use std::{
    cell::Cell,
    sync::{
        atomic::{AtomicI32, Ordering},
        Condvar, Mutex,
    },
};

#[derive(Clone, Debug, PartialEq, Eq)]
pub enum RegionKind {
    /// writable static of a library crate
    Static,
    /// harness-placed input shared by reference
    SharedInput,
}

#[derive(Clone, Debug)]
pub struct Region {
    pub name: String,
    pub base: usize,
    pub len: usize,
    pub kind: RegionKind,
}

// ------------------------------------------------------------------------------------------------
// discovery of the library's writable statics in this executable

#[no_mangle]
pub static VH_GUARD_ANCHOR: u8 = 7;

fn rd16(b: &[u8], o: usize) -> usize {
    u16::from_le_bytes([b[o], b[o + 1]]) as usize
}
fn rd32(b: &[u8], o: usize) -> usize {
    u32::from_le_bytes([b[o], b[o + 1], b[o + 2], b[o + 3]]) as usize
}
fn rd64(b: &[u8], o: usize) -> usize {
    u64::from_le_bytes(b[o..o + 8].try_into().unwrap()) as usize
}
fn cstr(b: &[u8], o: usize) -> &str {
    let e = b[o..].iter().position(|&c| c == 0).map_or(b.len(), |p| o + p);
    std::str::from_utf8(&b[o..e]).unwrap_or("")
}

/// (symbol name, link-time address, size, section name) of every OBJECT symbol in a writable,
/// non-TLS, non-RELRO section of `/proc/self/exe` whose name satisfies `want`.
pub fn writable_statics(want: &dyn Fn(&str) -> bool) -> Result<(Vec<(String, usize, usize, String)>, usize), String> {
    let b = std::fs::read("/proc/self/exe").map_err(|e| format!("cannot read /proc/self/exe: {e}"))?;
    if b.len() < 64 || &b[..4] != b"\x7fELF" || b[4] != 2 || b[5] != 1 {
        return Err("not a little-endian ELF64 executable".into());
    }
    let shoff = rd64(&b, 0x28);
    let shentsize = rd16(&b, 0x3A);
    let shnum = rd16(&b, 0x3C);
    let shstrndx = rd16(&b, 0x3E);
    if shoff == 0 || shnum == 0 {
        return Err("no section headers".into());
    }
    let sh = |i: usize| shoff + i * shentsize;
    let shstr_off = rd64(&b, sh(shstrndx) + 0x18);
    let sec_name = |i: usize| cstr(&b, shstr_off + rd32(&b, sh(i)));
    let symtab = (0..shnum).find(|&i| rd32(&b, sh(i) + 4) == 2).ok_or("no .symtab (stripped binary)")?;
    let (sym_off, sym_size, strtab) = (rd64(&b, sh(symtab) + 0x18), rd64(&b, sh(symtab) + 0x20), rd32(&b, sh(symtab) + 0x28));
    let str_off = rd64(&b, sh(strtab) + 0x18);
    let mut out = Vec::new();
    let mut anchor = None;
    for k in 0..sym_size / 24 {
        let e = sym_off + k * 24;
        let name = cstr(&b, str_off + rd32(&b, e));
        let info = b[e + 4];
        let shndx = rd16(&b, e + 6);
        let (value, size) = (rd64(&b, e + 8), rd64(&b, e + 16));
        if name == "VH_GUARD_ANCHOR" {
            anchor = Some(value);
        }
        if info & 0xf != 1 || shndx == 0 || shndx >= shnum || size == 0 {
            continue;
        }
        let flags = rd64(&b, sh(shndx) + 8);
        let sname = sec_name(shndx);
        let writable = flags & 1 != 0 && flags & 0x400 == 0 && !sname.starts_with(".data.rel.ro") && !sname.starts_with(".got") && !sname.contains("_array");
        if writable && want(name) {
            out.push((name.to_owned(), value, size, sname.to_owned()));
        }
    }
    let anchor = anchor.ok_or("anchor symbol missing from .symtab")?;
    let bias = (&VH_GUARD_ANCHOR as *const u8 as usize).wrapping_sub(anchor);
    out.sort_by_key(|x| x.1);
    Ok((out, bias))
}

/// The library crates' writable statics as guard regions (run-time addresses).
pub fn library_static_regions() -> Result<Vec<Region>, String> {
    let want = |n: &str| (n.contains("rosu_pp") || n.contains("rosu_map") || n.contains("rosu_mods")) && !n.starts_with("_ZN2vh") && !n.contains("VH_GUARD");
    let (syms, bias) = writable_statics(&want)?;
    Ok(syms.into_iter().map(|(name, addr, size, sec)| Region { name: format!("{name} [{sec}]"), base: addr.wrapping_add(bias), len: size, kind: RegionKind::Static }).collect())
}

/// Move `items` into pages of their own (never freed) and return them as a slice plus the region.
pub fn place_in_own_pages<T>(items: Vec<T>, name: &str) -> (&'static [T], Region) {
    let bytes = (std::mem::size_of::<T>() * items.len()).max(1);
    let len = (bytes + 4095) & !4095;
    // SAFETY: anonymous private mapping, checked below
    let p = unsafe { libc::mmap(std::ptr::null_mut(), len, libc::PROT_READ | libc::PROT_WRITE, libc::MAP_PRIVATE | libc::MAP_ANONYMOUS, -1, 0) };
    assert!(p != libc::MAP_FAILED, "mmap failed");
    assert!(std::mem::align_of::<T>() <= 4096);
    let base = p.cast::<T>();
    let n = items.len();
    for (i, it) in items.into_iter().enumerate() {
        // SAFETY: in bounds of the fresh mapping, properly aligned (page aligned base, array stride)
        unsafe { base.add(i).write(it) };
    }
    // SAFETY: n initialised elements that live for the rest of the process
    let slice = unsafe { std::slice::from_raw_parts(base, n) };
    (slice, Region { name: name.to_owned(), base: p as usize, len: bytes, kind: RegionKind::SharedInput })
}

// ------------------------------------------------------------------------------------------------
// the run-time part: handlers, baton, points

pub const K_START: u8 = 0;
pub const K_BOUNDARY: u8 = 1;
pub const K_READ: u8 = 2;
pub const K_WRITE: u8 = 3;
pub const K_SPIN_YIELD: u8 = 4;

#[derive(Clone, Debug, PartialEq, Eq)]
pub struct Point {
    pub tid: u8,
    pub kind: u8,
    pub region: u16,
    pub off: u32,
    /// whether the explorer had a choice here (the other thread was unfinished and this was not a damped spin read)
    pub branching: bool,
    /// 1 = the baton went to the other thread
    pub choice: u8,
}

/// granularity of hotness inside a shared-input region
const LINE: usize = 64;

struct State {
    finished: [bool; 2],
    prefix: Vec<u8>,
    pos: usize,
    points: Vec<Point>,
    /// per region: whole-region hot flag (statics) and per-line hot bits (shared inputs)
    hot_region: Vec<bool>,
    hot_lines: Vec<Vec<bool>>,
    written_region: Vec<bool>,
    written_lines: Vec<Vec<bool>>,
    spin: (u8, u16, u32, u32),
    overflow: bool,
    reads: u64,
    writes: u64,
    pass_through: u64,
    foreign: u64,
}

/// Everything the signal handlers touch lives on the heap and is synchronised with primitives that use no `static` of
/// std's (std's `Mutex` consults the global panic counter, which may sit on a guarded page: a fault inside the handler
/// would be fatal).
struct Shared {
    regions: Vec<Region>,
    pages: Vec<usize>,
    lock: AtomicI32,
    /// futex word: id of the thread that holds the baton, -1 = none, -2 = both jobs finished
    turn: AtomicI32,
    /// threads (both job threads and the arming thread) that are past every access of their own to std statics
    arrived: AtomicI32,
    /// futex word: 1 = the jobs are over, the job threads may leave
    release: AtomicI32,
    st: std::cell::UnsafeCell<State>,
    max_points: usize,
}
// SAFETY: `st` is only accessed under `lock`
unsafe impl Sync for Shared {}

struct Locked<'a>(&'a Shared);
impl std::ops::Deref for Locked<'_> {
    type Target = State;
    fn deref(&self) -> &State {
        // SAFETY: lock held
        unsafe { &*self.0.st.get() }
    }
}
impl std::ops::DerefMut for Locked<'_> {
    fn deref_mut(&mut self) -> &mut State {
        // SAFETY: lock held
        unsafe { &mut *self.0.st.get() }
    }
}
impl Drop for Locked<'_> {
    fn drop(&mut self) {
        self.0.lock.store(0, Ordering::Release);
    }
}

fn futex_wait(w: &AtomicI32, expected: i32) {
    // SAFETY: plain futex call on a live word; spurious returns are handled by the callers' loops
    unsafe {
        libc::syscall(libc::SYS_futex, std::ptr::from_ref(w), libc::FUTEX_WAIT, expected, std::ptr::null::<libc::timespec>());
    }
}
fn futex_wake_all(w: &AtomicI32) {
    // SAFETY: as above
    unsafe {
        libc::syscall(libc::SYS_futex, std::ptr::from_ref(w), libc::FUTEX_WAKE, i32::MAX);
    }
}

/// Fallback for threads that have not registered (or are past their registration): a page of its own, so that reading it
/// from the handler can never hit a guarded page.
#[repr(align(4096))]
struct OwnPage(std::sync::atomic::AtomicPtr<Shared>, [u8; 4088]);
static GLOBAL_SHARED: OwnPage = OwnPage(std::sync::atomic::AtomicPtr::new(std::ptr::null_mut()), [0; 4088]);

thread_local! {
    static TL_SHARED: Cell<*const Shared> = const { Cell::new(std::ptr::null()) };
    static TL_TID: Cell<i32> = const { Cell::new(-1) };
    static TL_PENDING: Cell<[usize; 4]> = const { Cell::new([0; 4]) };
}

impl Shared {
    fn region_of(&self, addr: usize) -> Option<usize> {
        self.regions.iter().position(|r| addr >= r.base && addr < r.base + r.len)
    }

    fn guarded_page(&self, addr: usize) -> bool {
        self.pages.binary_search(&(addr & !4095)).is_ok()
    }

    fn locked(&self) -> Locked<'_> {
        while self.lock.compare_exchange_weak(0, 1, Ordering::Acquire, Ordering::Relaxed).is_err() {
            std::hint::spin_loop();
        }
        Locked(self)
    }

    fn await_turn(&self, tid: u8) {
        loop {
            let t = self.turn.load(Ordering::Acquire);
            if t == i32::from(tid) {
                return;
            }
            futex_wait(&self.turn, t);
        }
    }

    fn pass_baton(&self, to: i32) {
        self.turn.store(to, Ordering::Release);
        futex_wake_all(&self.turn);
    }

    /// A scheduling point of thread `tid` (which holds the baton, or acquires it first).
    fn point(&self, tid: u8, kind: u8, region: u16, off: u32) {
        // a thread that lost the baton while blocked elsewhere waits here
        self.await_turn(tid);
        let other = 1 - tid as usize;
        let choice = {
            let mut st = self.locked();
            let other_enabled = !st.finished[other];
            // spin damping: the same thread reading the same place again and again
            let mut branching = other_enabled;
            let mut forced = false;
            if kind == K_READ {
                if st.spin.0 == tid && st.spin.1 == region && st.spin.2 == off {
                    st.spin.3 += 1;
                } else {
                    st.spin = (tid, region, off, 1);
                }
                if st.spin.3 > 3 {
                    branching = false;
                }
                if st.spin.3 > 48 && other_enabled {
                    forced = true;
                    st.spin.3 = 0;
                }
            } else if kind == K_WRITE {
                st.spin = (tid, u16::MAX, 0, 0);
            }
            let mut choice = 0u8;
            if forced {
                choice = 1;
            } else if branching {
                if st.pos < st.prefix.len() {
                    choice = st.prefix[st.pos];
                }
                st.pos += 1;
            }
            if st.points.len() < self.max_points {
                let k = if forced { K_SPIN_YIELD } else { kind };
                st.points.push(Point { tid, kind: k, region, off, branching: branching && !forced, choice });
            } else {
                st.overflow = true;
            }
            choice
        };
        if choice == 1 {
            self.pass_baton(other as i32);
            self.await_turn(tid);
        }
    }

    fn finish(&self, tid: u8) {
        self.await_turn(tid);
        let other = 1 - tid as usize;
        let next = {
            let mut st = self.locked();
            st.finished[tid as usize] = true;
            if st.finished[other] {
                -2
            } else {
                other as i32
            }
        };
        self.pass_baton(next);
    }

    /// Called from the SIGSEGV handler.
    fn access(&self, tid: i32, addr: usize, is_write: bool) {
        let Some(ri) = self.region_of(addr) else {
            let mut st = self.locked();
            st.foreign += 1;
            return;
        };
        let r = &self.regions[ri];
        let off = addr - r.base;
        let line = off / LINE;
        let is_point = {
            let mut st = self.locked();
            if is_write {
                st.writes += 1;
                st.written_region[ri] = true;
                st.hot_region[ri] = true;
                // an access may be wider than the granule it faults on
                for l in line..(line + 2).min(st.hot_lines[ri].len()) {
                    st.hot_lines[ri][l] = true;
                    st.written_lines[ri][l] = true;
                }
                true
            } else {
                st.reads += 1;
                let hot = match r.kind {
                    RegionKind::Static => st.hot_region[ri],
                    RegionKind::SharedInput => st.hot_lines[ri][line],
                };
                if !hot {
                    st.pass_through += 1;
                }
                hot
            }
        };
        if is_point && tid >= 0 {
            self.point(tid as u8, if is_write { K_WRITE } else { K_READ }, ri as u16, off as u32);
        }
    }
}

unsafe extern "C" fn on_segv(_sig: libc::c_int, info: *mut libc::siginfo_t, uctx: *mut libc::c_void) {
    let mut sh = TL_SHARED.with(Cell::get);
    if sh.is_null() {
        sh = GLOBAL_SHARED.0.load(std::sync::atomic::Ordering::Acquire);
    }
    let addr = (*info).si_addr() as usize;
    if sh.is_null() || !(*sh).guarded_page(addr) {
        // not ours: a genuine crash. Say so (no allocation, no std) and fall back to the default action on re-execution.
        let mut buf = [0u8; 96];
        let msg = b"guard: SIGSEGV outside the guarded pages at 0x";
        buf[..msg.len()].copy_from_slice(msg);
        let mut n = msg.len();
        for i in (0..16).rev() {
            buf[n] = b"0123456789abcdef"[(addr >> (i * 4)) & 15];
            n += 1;
        }
        let tail: &[u8] = if sh.is_null() { b" (no guard registered)\n" } else { b"\n" };
        buf[n..n + tail.len()].copy_from_slice(tail);
        n += tail.len();
        libc::write(2, buf.as_ptr().cast(), n);
        libc::signal(libc::SIGSEGV, libc::SIG_DFL);
        return;
    }
    let uc = uctx.cast::<libc::ucontext_t>();
    let err = (*uc).uc_mcontext.gregs[libc::REG_ERR as usize];
    let is_write = err & 2 != 0;
    (*sh).access(TL_TID.with(Cell::get), addr, is_write);
    let page = addr & !4095;
    libc::mprotect(page as *mut libc::c_void, 4096, libc::PROT_READ | libc::PROT_WRITE);
    TL_PENDING.with(|p| {
        let mut a = p.get();
        if let Some(slot) = a.iter_mut().find(|s| **s == 0 || **s == page) {
            *slot = page;
        }
        p.set(a);
    });
    (*uc).uc_mcontext.gregs[libc::REG_EFL as usize] |= 0x100;
}

unsafe extern "C" fn on_trap(_sig: libc::c_int, _info: *mut libc::siginfo_t, uctx: *mut libc::c_void) {
    let uc = uctx.cast::<libc::ucontext_t>();
    TL_PENDING.with(|p| {
        let a = p.get();
        for page in a {
            if page != 0 {
                libc::mprotect(page as *mut libc::c_void, 4096, libc::PROT_NONE);
            }
        }
        p.set([0; 4]);
    });
    (*uc).uc_mcontext.gregs[libc::REG_EFL as usize] &= !0x100;
}

#[derive(Clone, Debug, Default)]
pub struct RunOut {
    pub points: Vec<Point>,
    /// per thread: one digest per call
    pub results: [Vec<u64>; 2],
    pub reads: u64,
    pub writes: u64,
    pub pass_through: u64,
    pub foreign: u64,
    pub overflow: bool,
    /// (region index, line) written during this run; line = u32::MAX for a whole static
    pub written: Vec<(u16, u32)>,
    /// filled by the parent from the `Q` lines: the same calls once more, sequentially, after the guarded run
    pub probe: [Vec<u64>; 2],
    /// `G` lines: names of the guarded regions as the execution process saw them
    pub region_names: Vec<String>,
}

pub struct RunCfg {
    pub regions: Vec<Region>,
    /// locations known to be written by some job (from the profile runs)
    pub hot: Vec<(u16, u32)>,
    pub prefix: Vec<u8>,
    pub max_points: usize,
}

/// Execute `calls[t]` calls on thread `t` (t = 0, 1) under the guard; `exec(tid, call)` is the body.
pub fn run_two(cfg: RunCfg, calls: [usize; 2], exec: &(dyn Fn(u8, usize) -> u64 + Sync)) -> RunOut {
    let mut pages: Vec<usize> = Vec::new();
    for r in &cfg.regions {
        let mut p = r.base & !4095;
        while p < r.base + r.len {
            pages.push(p);
            p += 4096;
        }
    }
    pages.sort_unstable();
    pages.dedup();
    let n = cfg.regions.len();
    let lines: Vec<usize> = cfg.regions.iter().map(|r| r.len / LINE + 2).collect();
    let mut hot_region = vec![false; n];
    let mut hot_lines: Vec<Vec<bool>> = lines.iter().map(|&l| vec![false; l]).collect();
    for &(ri, l) in &cfg.hot {
        if (ri as usize) < n {
            hot_region[ri as usize] = true;
            if l != u32::MAX && (l as usize) < hot_lines[ri as usize].len() {
                hot_lines[ri as usize][l as usize] = true;
            }
        }
    }
    let shared: &'static Shared = Box::leak(Box::new(Shared {
        regions: cfg.regions.clone(),
        pages,
        lock: AtomicI32::new(0),
        turn: AtomicI32::new(0),
        arrived: AtomicI32::new(0),
        release: AtomicI32::new(0),
        st: std::cell::UnsafeCell::new(State {
            finished: [false, false],
            prefix: cfg.prefix.clone(),
            pos: 0,
            points: Vec::with_capacity(cfg.max_points + 8),
            hot_region,
            hot_lines,
            written_region: vec![false; n],
            written_lines: lines.iter().map(|&l| vec![false; l]).collect(),
            spin: (0, u16::MAX, 0, 0),
            overflow: false,
            reads: 0,
            writes: 0,
            pass_through: 0,
            foreign: 0,
        }),
        max_points: cfg.max_points,
    }));
    let gate = Box::leak(Box::new((Mutex::new((false, false, 0u8)), Condvar::new())));
    let results: &'static [Mutex<Vec<u64>>; 2] = Box::leak(Box::new([Mutex::new(Vec::new()), Mutex::new(Vec::new())]));
    // SAFETY: the threads that use `exec` are joined (pthread_join, i.e. fully gone) before this function returns
    let exec: &'static (dyn Fn(u8, usize) -> u64 + Sync) = unsafe { std::mem::transmute(exec) };

    TL_SHARED.with(|c| c.set(shared));
    TL_TID.with(|c| c.set(-1));

    let mut saved: Option<(libc::sigaction, libc::sigaction)> = None;
    // plain (not scoped) threads: `scope` returns as soon as the closures have returned, while the threads are still running
    // their exit path (TLS destructors, alternate stack) which touches std statics that may share a page with a guarded one
    let mut handles = Vec::new();
    {
        for t in 0..2u8 {
            let gate = &*gate;
            handles.push(std::thread::spawn(move || {
                TL_SHARED.with(|c| c.set(shared));
                TL_TID.with(|c| c.set(i32::from(t)));
                // check in, then wait until the guard is armed
                {
                    let mut g = gate.0.lock().unwrap();
                    g.2 += 1;
                    gate.1.notify_all();
                    while !g.0 {
                        g = gate.1.wait(g).unwrap();
                    }
                }
                let mut out = Vec::with_capacity(calls[t as usize]);
                // From here to the release nothing but the job itself may touch a guarded page: a pass-through access of a
                // thread that does not hold the baton un-protects the page for one instruction and would hide an access of
                // the running thread. The first thread therefore starts only when everybody else is parked.
                shared.arrived.fetch_add(1, Ordering::AcqRel);
                if t == 0 {
                    while shared.arrived.load(Ordering::Acquire) < 3 {
                        std::hint::spin_loop();
                    }
                }
                shared.point(t, K_START, u16::MAX, 0);
                for c in 0..calls[t as usize] {
                    let r = std::panic::catch_unwind(std::panic::AssertUnwindSafe(|| exec(t, c))).unwrap_or(0xDEAD_0000_0000_DEAD);
                    out.push(r);
                    if c + 1 < calls[t as usize] {
                        shared.point(t, K_BOUNDARY, u16::MAX, c as u32);
                    }
                }
                shared.finish(t);
                // stay parked (no std, no library) until both jobs are over
                while shared.release.load(Ordering::Acquire) == 0 {
                    futex_wait(&shared.release, 0);
                }
                TL_TID.with(|c| c.set(-1));
                *results[t as usize].lock().unwrap() = out;
            }));
        }
        // arm once both threads are past their start-up code
        {
            let mut g = gate.0.lock().unwrap();
            while g.2 < 2 {
                g = gate.1.wait(g).unwrap();
            }
        }
        GLOBAL_SHARED.0.store(std::ptr::from_ref(shared).cast_mut(), std::sync::atomic::Ordering::Release);
        // SAFETY: plain sigaction / mprotect calls; the handlers only touch heap state of `shared` and thread-locals
        unsafe {
            let mut sa: libc::sigaction = std::mem::zeroed();
            sa.sa_sigaction = on_segv as *const () as usize;
            sa.sa_flags = libc::SA_SIGINFO;
            libc::sigemptyset(&mut sa.sa_mask);
            let mut old_segv: libc::sigaction = std::mem::zeroed();
            libc::sigaction(libc::SIGSEGV, &sa, &mut old_segv);
            let mut st: libc::sigaction = std::mem::zeroed();
            st.sa_sigaction = on_trap as *const () as usize;
            st.sa_flags = libc::SA_SIGINFO;
            libc::sigemptyset(&mut st.sa_mask);
            let mut old_trap: libc::sigaction = std::mem::zeroed();
            libc::sigaction(libc::SIGTRAP, &st, &mut old_trap);
            for &p in &shared.pages {
                libc::mprotect(p as *mut libc::c_void, 4096, libc::PROT_NONE);
            }
            {
                let mut g = gate.0.lock().unwrap();
                g.0 = true;
                gate.1.notify_all();
            }
            shared.arrived.fetch_add(1, Ordering::AcqRel);
            // wait for both threads to finish their jobs
            loop {
                let t = shared.turn.load(Ordering::Acquire);
                if t == -2 {
                    break;
                }
                futex_wait(&shared.turn, t);
            }
            // let the threads leave; they may still touch guarded pages on their way out (std's own statics share pages with
            // the library's), so the handlers stay installed and the pages stay guarded until the threads are gone
            shared.release.store(1, Ordering::Release);
            futex_wake_all(&shared.release);
            saved = Some((old_segv, old_trap));
        }
    }
    for h in handles {
        let _ = h.join();
    }
    // all job threads are gone: only now drop the guard
    // SAFETY: plain mprotect / sigaction calls
    unsafe {
        for &p in &shared.pages {
            libc::mprotect(p as *mut libc::c_void, 4096, libc::PROT_READ | libc::PROT_WRITE);
        }
        if let Some((old_segv, old_trap)) = saved {
            libc::sigaction(libc::SIGSEGV, &old_segv, std::ptr::null_mut());
            libc::sigaction(libc::SIGTRAP, &old_trap, std::ptr::null_mut());
        }
    }
    TL_SHARED.with(|c| c.set(std::ptr::null()));
    GLOBAL_SHARED.0.store(std::ptr::null_mut(), std::sync::atomic::Ordering::Release);

    let st = shared.locked();
    let mut written = Vec::new();
    for (ri, r) in shared.regions.iter().enumerate() {
        if st.written_region[ri] {
            match r.kind {
                RegionKind::Static => written.push((ri as u16, u32::MAX)),
                RegionKind::SharedInput => {
                    for (l, w) in st.written_lines[ri].iter().enumerate() {
                        if *w {
                            written.push((ri as u16, l as u32));
                        }
                    }
                }
            }
        }
    }
    let (r0, r1) = (results[0].lock().unwrap().clone(), results[1].lock().unwrap().clone());
    RunOut {
        points: st.points.clone(),
        probe: Default::default(),
        region_names: Vec::new(),
        results: [r0, r1],
        reads: st.reads,
        writes: st.writes,
        pass_through: st.pass_through,
        foreign: st.foreign,
        overflow: st.overflow,
        written,
    }
}

// ------------------------------------------------------------------------------------------------
// wire format between the execution process and the exploring parent

impl RunOut {
    pub fn to_wire(&self) -> String {
        use std::fmt::Write;
        let mut o = String::new();
        for p in &self.points {
            let _ = writeln!(o, "P {} {} {} {} {} {}", p.tid, p.kind, p.region, p.off, u8::from(p.branching), p.choice);
        }
        for t in 0..2 {
            for (i, r) in self.results[t].iter().enumerate() {
                let _ = writeln!(o, "R {t} {i} {r:x}");
            }
        }
        for (r, l) in &self.written {
            let _ = writeln!(o, "W {r} {l}");
        }
        let _ = writeln!(o, "S {} {} {} {} {}", self.reads, self.writes, self.pass_through, self.foreign, u8::from(self.overflow));
        o
    }

    pub fn from_wire(text: &str) -> Option<Self> {
        let mut out = RunOut::default();
        let mut seen_s = false;
        for line in text.lines() {
            let f: Vec<&str> = line.split(' ').collect();
            match f.first().copied() {
                Some("P") if f.len() == 7 => out.points.push(Point { tid: f[1].parse().ok()?, kind: f[2].parse().ok()?, region: f[3].parse().ok()?, off: f[4].parse().ok()?, branching: f[5] == "1", choice: f[6].parse().ok()? }),
                Some("R") if f.len() == 4 => {
                    let t: usize = f[1].parse().ok()?;
                    out.results[t.min(1)].push(u64::from_str_radix(f[3], 16).ok()?);
                }
                Some("W") if f.len() == 3 => out.written.push((f[1].parse().ok()?, f[2].parse().ok()?)),
                Some("Q") if f.len() == 4 => {
                    let t: usize = f[1].parse().ok()?;
                    out.probe[t.min(1)].push(u64::from_str_radix(f[3], 16).ok()?);
                }
                Some("G") if f.len() >= 4 => out.region_names.push(format!("{} ({} bytes)", f[3..].join(" "), f[2])),
                Some("S") if f.len() == 6 => {
                    out.reads = f[1].parse().ok()?;
                    out.writes = f[2].parse().ok()?;
                    out.pass_through = f[3].parse().ok()?;
                    out.foreign = f[4].parse().ok()?;
                    out.overflow = f[5] == "1";
                    seen_s = true;
                }
                _ => {}
            }
        }
        seen_s.then_some(out)
    }

    /// The choices taken at the branching points, in order.
    pub fn choices(&self) -> Vec<u8> {
        self.points.iter().filter(|p| p.branching).map(|p| p.choice).collect()
    }
}

// ------------------------------------------------------------------------------------------------
// the explorer (parent side): depth-first over choice vectors with a preemption bound

#[derive(Debug, Default)]
pub struct ExploreStats {
    pub runs: u64,
    pub max_points: usize,
    pub max_branching: usize,
    pub hot_points_seen: u64,
    pub capped: bool,
    pub failed_runs: u64,
    /// the search stops (reported as capped) once this instant has passed
    pub deadline: Option<std::time::Instant>,
}

/// `run(prefix)` executes one schedule: the choices of `prefix` at the first branching points, 0 afterwards.
/// `check(out)` returns a description if the execution violates the oracle.
/// Returns the first violation (choice vector, description) if any.
pub fn explore(run: &dyn Fn(&[u8]) -> Result<RunOut, String>, check: &dyn Fn(&RunOut) -> Option<String>, bound: usize, max_runs: u64, stats: &mut ExploreStats) -> Result<Option<(Vec<u8>, String, RunOut)>, String> {
    explore_ordered(run, check, bound, max_runs, stats, false)
}

/// `explore` with a choice of order among the children of an execution: in execution order (`writes_first = false`), or
/// preemptions at writes to shared locations before those at reads. The set of schedules is the same; only what a capped
/// search reaches first differs.
pub fn explore_ordered(run: &dyn Fn(&[u8]) -> Result<RunOut, String>, check: &dyn Fn(&RunOut) -> Option<String>, bound: usize, max_runs: u64, stats: &mut ExploreStats, writes_first: bool) -> Result<Option<(Vec<u8>, String, RunOut)>, String> {
    let mut stack: Vec<Vec<u8>> = vec![Vec::new()];
    while let Some(prefix) = stack.pop() {
        if stats.runs >= max_runs || stats.deadline.is_some_and(|d| std::time::Instant::now() > d) {
            stats.capped = true;
            break;
        }
        // an execution process that dies is retried once (environment); a schedule is never silently dropped
        let out = match run(&prefix) {
            Ok(o) => o,
            Err(_) => {
                stats.failed_runs += 1;
                run(&prefix)?
            }
        };
        stats.runs += 1;
        let ch = out.choices();
        if ch.len() < prefix.len() || ch[..prefix.len()] != prefix[..] {
            return Err(format!("replay diverged: asked for choices {prefix:?}, execution took {ch:?}"));
        }
        stats.max_points = stats.max_points.max(out.points.len());
        stats.max_branching = stats.max_branching.max(ch.len());
        stats.hot_points_seen += out.points.iter().filter(|p| p.kind >= K_READ).count() as u64;
        if out.overflow {
            stats.capped = true;
        }
        if let Some(msg) = check(&out) {
            return Ok(Some((ch, msg, out)));
        }
        let used: usize = prefix.iter().filter(|&&c| c == 1).count();
        if used >= bound {
            continue;
        }
        // children: flip one later branching point to 1 (everything in between stays 0). The set of children is the same in
        // any order; with `writes_first` preemptions right at a *write* to a shared location are tried first (a thread stopped between its write
        // and whatever the write announces is where check-then-act and publish-before-ready defects show), then the reads,
        // each class in execution order. Only the order in which a capped search spends its budget depends on this.
        let kinds: Vec<u8> = out.points.iter().filter(|p| p.branching).map(|p| p.kind).collect();
        for writes in [false, true] {
            for i in (prefix.len()..ch.len()).rev() {
                // (without `writes_first` everything goes in the first pass, in execution order)
                let late = writes_first && kinds.get(i) == Some(&K_WRITE);
                if late == writes {
                    let mut p = ch[..i].to_vec();
                    p.push(1);
                    stack.push(p);
                }
            }
        }
    }
    Ok(None)
}

pub fn describe_points(points: &[Point], regions: &[String]) -> String {
    use std::fmt::Write;
    let mut o = String::new();
    for p in points {
        let what = match p.kind {
            K_START => "start".to_owned(),
            K_BOUNDARY => format!("after call #{}", p.off),
            K_READ => format!("read  {}+{}", regions.get(p.region as usize).map_or("?", String::as_str), p.off),
            K_WRITE => format!("write {}+{}", regions.get(p.region as usize).map_or("?", String::as_str), p.off),
            _ => format!("spinning on {}+{} -> baton passed on", regions.get(p.region as usize).map_or("?", String::as_str), p.off),
        };
        let _ = writeln!(o, "  T{} {what}{}", p.tid, if p.choice == 1 { "   => switch to the other thread" } else { "" });
    }
    o
}

// ------------------------------------------------------------------------------------------------
// process plumbing shared by the checkers that use E4

pub fn choices_to_arg(c: &[u8]) -> String {
    if c.is_empty() {
        "-".to_owned()
    } else {
        c.iter().map(|x| if *x == 1 { '1' } else { '0' }).collect()
    }
}

pub fn choices_from_arg(s: &str) -> Vec<u8> {
    s.chars().filter(|c| *c == '0' || *c == '1').map(|c| u8::from(c == '1')).collect()
}

pub fn hot_to_arg(h: &[(u16, u32)]) -> String {
    if h.is_empty() {
        "-".to_owned()
    } else {
        h.iter().map(|(r, l)| format!("{r}:{l}")).collect::<Vec<_>>().join(",")
    }
}

pub fn hot_from_arg(s: &str) -> Vec<(u16, u32)> {
    s.split(',').filter_map(|p| p.split_once(':')).filter_map(|(a, b)| Some((a.parse().ok()?, b.parse().ok()?))).collect()
}

/// Run one execution in a process of its own: `exe base_args.. <choices> <hot>`; the child prints the wire format.
pub fn run_child(exe: &std::path::Path, base_args: &[String], prefix: &[u8], hot: &[(u16, u32)]) -> Result<(RunOut, String), String> {
    let o = std::process::Command::new(exe)
        .args(base_args)
        .arg(choices_to_arg(prefix))
        .arg(hot_to_arg(hot))
        .env("VERIF_NO_EVIDENCE", "1")
        .stderr(std::process::Stdio::piped())
        .output()
        .map_err(|e| format!("cannot spawn {}: {e}", exe.display()))?;
    let text = String::from_utf8_lossy(&o.stdout).into_owned();
    if !o.status.success() {
        return Err(format!("execution process {:?} choices={} ended with {:?}; stderr: {}", base_args, choices_to_arg(prefix), o.status, String::from_utf8_lossy(&o.stderr).chars().take(400).collect::<String>()));
    }
    let out = RunOut::from_wire(&text).ok_or_else(|| format!("execution process {base_args:?} produced no complete record"))?;
    Ok((out, text))
}

/// To be called first thing in an execution process: a stuck schedule must not hang the explorer.
pub fn arm_alarm(seconds: u32) {
    // SAFETY: plain libc call
    unsafe {
        libc::alarm(seconds);
    }
}
