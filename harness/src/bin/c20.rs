//! C20 — concurrent use is interference-free.
//!
//! E3 baton scheduler: k real OS threads, exactly one runnable at a time, switch points at public
//! API call boundaries; all interleavings and all job assignments are enumerated (A), and all
//! ownership sequences of a gradual calculator handed from thread to thread (B). A free-running
//! pass (C) over the same bodies on unsynchronised threads is sampling and labelled so.

use std::sync::Mutex;

use rosu_pp::{any::ScoreState, Beatmap, Difficulty, Performance};
use vh::{
    api,
    baton::{self, interleavings},
    cmp::{canon, digest},
    gen::{self, Kind, MapSpec, Obj, PosK},
    json::J,
    settings::{self, ModSpec, Setting},
    Ctx, Local,
};

fn maps() -> Vec<Beatmap> {
    let o = |k, gap, pos, sound, col| Obj { kind: k, gap, pos, sound, col };
    let mut hits: Vec<Obj> = vec![o(Kind::Circle, 0, PosK::Same, 0, 0), o(Kind::Slider2, 150, PosK::Far, 8, 0), o(Kind::Circle, 300, PosK::Far, 0, 0), o(Kind::Spinner(600), 150, PosK::Same, 4, 0)];
    for i in 0..12 {
        hits.push(o(Kind::Circle, 120, if i % 2 == 0 { PosK::Far } else { PosK::Near }, if i % 3 == 0 { 8 } else { 0 }, 0));
    }
    vec![
        MapSpec::new(0, hits.clone()).decode(),
        MapSpec::new(1, hits.clone()).decode(),
        MapSpec::new(3, vec![o(Kind::Circle, 0, PosK::Same, 0, 0), o(Kind::Hold(300), 150, PosK::Same, 0, 2), o(Kind::Circle, 100, PosK::Same, 0, 1), o(Kind::Hold(100), 100, PosK::Same, 0, 0), o(Kind::Circle, 90, PosK::Same, 0, 2)]).decode(),
        // #3: taiko, long, with a rim / centre pattern unlike #1 (mono streaks of other lengths)
        MapSpec::new(1, (0..40).map(|i| o(Kind::Circle, if i % 7 == 0 { 240 } else { 110 }, PosK::Far, if (i / 3) % 2 == 0 { 0 } else { 2 }, 0)).collect()).decode(),
        // #4: taiko, long, alternating colours
        MapSpec::new(1, (0..40).map(|i| o(Kind::Circle, 125, PosK::Far, if i % 2 == 0 { 8 } else { 0 }, 0)).collect()).decode(),
        // #5: native catch, early first fruit (the hard-rock offset of a fruit looks at the previous object's position and time)
        MapSpec { first_start: 400, ..MapSpec::new(2, vec![o(Kind::Circle, 0, PosK::Same, 0, 0), o(Kind::Circle, 300, PosK::Near, 0, 0), o(Kind::Circle, 200, PosK::Far, 0, 0), o(Kind::Slider2, 300, PosK::Near, 0, 0), o(Kind::Circle, 400, PosK::Same, 0, 0)]) }.decode(),
        // #6: native catch ending on a juice stream somewhere else
        MapSpec { first_start: 900, ..MapSpec::new(2, vec![o(Kind::Circle, 0, PosK::Far, 0, 0), o(Kind::Circle, 250, PosK::Far, 0, 0), o(Kind::SliderLong, 300, PosK::Far, 0, 0)]) }.decode(),
        // #7 / #8: osu! maps whose conversion to mania sits in other regimes than #0's (the pattern generators branch on a
        // "conversion difficulty" derived from HP / OD / AR and the object density): dense + hard, sparse + easy, both with
        // plain and repeat sliders
        MapSpec { diff: gen::DiffPreset::D2, ..MapSpec::new(0, (0..14).map(|i| o(if i % 3 == 1 { Kind::SliderLong } else if i % 3 == 2 { Kind::Slider5 } else { Kind::Circle }, 90, if i % 2 == 0 { PosK::Far } else { PosK::Near }, if i % 4 == 0 { 4 } else { 0 }, 0)).collect()) }.decode(),
        MapSpec { diff: gen::DiffPreset::D1, ..MapSpec::new(0, vec![o(Kind::Slider2, 0, PosK::Far, 0, 0), o(Kind::Circle, 1500, PosK::Far, 0, 0), o(Kind::Slider5, 2500, PosK::Far, 8, 0), o(Kind::SliderLong, 3000, PosK::Far, 0, 0)]) }.decode(),
        // #9: a long osu! map (130 objects) — size thresholds (a fast path, a cache, a registry "worth it" only for big maps)
        MapSpec { repeat: 65, ..MapSpec::new(0, vec![o(Kind::Circle, 130, PosK::Far, 0, 0), o(Kind::Slider2, 200, PosK::Near, 8, 0)]) }.decode(),
        // #10: a very long map — 1100 circles 400 ms apart: more than 1024 non-empty strain sections (size thresholds on the
        // strain lists themselves)
        MapSpec { repeat: 1100, ..MapSpec::new(0, vec![o(Kind::Circle, 400, PosK::Far, 0, 0)]) }.decode(),
        // #11: a file whose own mode is mania but that lists slider-type objects (the decoder keeps them as sliders; mania
        // derives their length on the fly)
        MapSpec::new(3, vec![o(Kind::Circle, 0, PosK::Same, 0, 0), o(Kind::SliderLong, 150, PosK::Same, 0, 1), o(Kind::Slider2, 100, PosK::Same, 0, 2), o(Kind::Circle, 100, PosK::Same, 0, 3), o(Kind::SliderLong, 200, PosK::Same, 0, 0), o(Kind::Slider5, 90, PosK::Same, 0, 2)]).decode(),
        // #12 / #13: taiko maps with 72 / 90 inherited points that alternate scroll speed and kiai, a hit between every two
        // (lists long enough for a "last lookup" hint or a bisection cache to be worth keeping)
        many_points_map(72, 0),
        many_points_map(90, 1),
        // #14: 2100 circles in triplets (100, 100, 300 ms) at scattered positions: more than 2048 difficulty objects, and
        // the repeated-island term of the rhythm evaluator decides the speed strain (a map whose islands never repeat leaves
        // the result blind to that term)
        triplet_map(2100),
    ]
}

fn triplet_map(n: u32) -> Beatmap {
    use std::fmt::Write as _;
    let mut t = String::from("osu file format v14\n\n[General]\nMode: 0\nStackLeniency: 0.7\n\n[Difficulty]\nHPDrainRate:5\nCircleSize:4\nOverallDifficulty:8\nApproachRate:9\nSliderMultiplier:1.4\nSliderTickRate:1\n\n[TimingPoints]\n0,400,4,2,0,100,1,0\n\n[HitObjects]\n");
    let mut time = 1000;
    for i in 0..n {
        let _ = writeln!(t, "{},{},{time},1,0,0:0:0:0:", 64 + (i * 97) % 384, 48 + (i * 61) % 288);
        time += if i % 3 == 2 { 300 } else { 100 };
    }
    Beatmap::from_bytes(t.as_bytes()).expect("decodes")
}

fn many_points_map(points: u32, flavour: u32) -> Beatmap {
    use std::fmt::Write as _;
    let mut t = String::from("osu file format v14\n\n[General]\nMode: 1\n\n[Difficulty]\nHPDrainRate:5\nCircleSize:4\nOverallDifficulty:7\nApproachRate:8\nSliderMultiplier:1.4\nSliderTickRate:1\n\n[TimingPoints]\n0,500,4,2,0,60,1,0\n");
    for i in 0..points {
        let sv = [-50, -100, -200, -66][((i + flavour) % 4) as usize];
        let _ = writeln!(t, "{},{sv},4,2,0,60,0,{}", 1000 + i * 120, (i + flavour) % 2);
    }
    t.push_str("\n[HitObjects]\n");
    for i in 0..points {
        let _ = writeln!(t, "256,192,{},1,{},0:0:0:0:", 1030 + i * 120, if (i / 3 + flavour) % 2 == 0 { 0 } else { 8 });
    }
    Beatmap::from_bytes(t.as_bytes()).expect("decodes")
}

fn setts() -> Vec<Setting> {
    vec![
        Setting::nm(),
        Setting::bits(settings::HR | settings::DT),
        Setting::mods(ModSpec::Random(Some(11.0))),
        Setting::mods(ModSpec::Random(Some(7777.0))),
        Setting::bits(settings::KEY7),
        // #5: hard-rock offsets without the mod
        Setting { hr_offsets: Some(true), ..Setting::nm() },
        // #6: another key mod (two conversions of one shared map that must not be mistaken for each other)
        Setting::bits(settings::KEY4),
    ]
}

/// One public API call (or a short group of them that a user would not interleave).
#[derive(Clone, Copy, Debug, PartialEq)]
enum Step {
    Difficulty { map: u8, dst: u8, s: u8 },
    Strains { map: u8, dst: u8, s: u8 },
    Performance { map: u8, dst: u8, s: u8 },
    Convert { map: u8, dst: u8, s: u8 },
    GradualNew { map: u8, dst: u8, s: u8 },
    GradualNext,
    GradualPerfNew { map: u8, dst: u8, s: u8 },
    GradualPerfNext,
    /// decode a text from scratch and ask for its bpm (shares nothing by reference)
    Decode,
    /// a clone of one of the world's prepared calculators (0: osu! on map #0, 1: the same switched to mania, 2: taiko on
    /// map #1), given this thread's own Difficulty and calculated: clones of one value are independent values
    ClonedPerformance { base: u8, s: u8 },
}

#[derive(Default)]
struct ThreadState {
    gd: Option<rosu_pp::GradualDifficulty>,
    gp: Option<rosu_pp::GradualPerformance>,
}

struct World {
    maps: &'static [Beatmap],
    setts: Vec<Setting>,
    /// calculators prepared once and shared by reference; jobs clone them
    bases: Vec<Performance<'static>>,
}

const BASE_MODES: [u8; 3] = [0, 3, 1];

impl World {
    fn new(maps: &'static [Beatmap]) -> Self {
        let bases = vec![
            Performance::new(&maps[0]),
            Performance::new(&maps[0]).try_mode(gen::game_mode(3)).ok().expect("osu! map"),
            Performance::new(&maps[1]),
        ];
        Self { maps, setts: setts(), bases }
    }

    fn exec(&self, st: &mut ThreadState, step: Step) -> u64 {
        let d = |s: u8, dst: u8| self.setts[s as usize].difficulty(gen::game_mode(dst));
        let out = match step {
            Step::Difficulty { map, dst, s } => format!("{:?}", api::difficulty(&d(s, dst), &self.maps[map as usize], dst)),
            Step::Strains { map, dst, s } => format!("{:?}", api::strains(&d(s, dst), &self.maps[map as usize], dst)),
            Step::Performance { map, dst, s } => {
                let m = &self.maps[map as usize];
                let p = Performance::new(m).difficulty(d(s, dst)).try_mode(gen::game_mode(dst)).ok().expect("reachable");
                format!("{:?}", p.accuracy(97.0).misses(1).calculate())
            }
            Step::Convert { map, dst, s } => {
                let m = &self.maps[map as usize];
                format!("{:?}", m.convert_ref(gen::game_mode(dst), &self.setts[s as usize].mods.build(gen::game_mode(dst))).map(std::borrow::Cow::into_owned))
            }
            Step::GradualNew { map, dst, s } => {
                st.gd = Some(api::gradual(d(s, dst), &self.maps[map as usize], dst).expect("reachable"));
                "new".to_owned()
            }
            Step::GradualNext => format!("{:?}", st.gd.as_mut().and_then(Iterator::next)),
            Step::GradualPerfNew { map, dst, s } => {
                st.gp = Some(api::gradual_perf(d(s, dst), &self.maps[map as usize], dst).expect("reachable"));
                "new".to_owned()
            }
            Step::GradualPerfNext => format!("{:?}", st.gp.as_mut().and_then(|g| g.next(ScoreState { n300: 1, max_combo: 1, ..ScoreState::new() }))),
            Step::Decode => {
                let o = |k, gap, pos, sound, col| Obj { kind: k, gap, pos, sound, col };
                let m = MapSpec::new(0, vec![o(Kind::Circle, 0, PosK::Same, 0, 0), o(Kind::Slider2, 150, PosK::Far, 8, 0), o(Kind::Spinner(600), 300, PosK::Same, 4, 0)]).decode();
                format!("{m:?} {}", m.bpm())
            }
            Step::ClonedPerformance { base, s } => {
                let p = self.bases[base as usize].clone().difficulty(d(s, BASE_MODES[base as usize]));
                format!("{:?}", p.accuracy(97.0).misses(1).calculate())
            }
        };
        digest(&canon(&out))
    }

    /// Sequential reference: the digests a thread's step list yields when run alone.
    fn reference(&self, steps: &[Step]) -> Vec<u64> {
        // (a world of its own: whatever a job leaves in the prepared calculators must not reach another job's reference)
        let fresh = World::new(self.maps);
        let mut st = ThreadState::default();
        steps.iter().map(|s| fresh.exec(&mut st, *s)).collect()
    }
}

/// Job pool: every job is a step list of the given length.
fn jobs(len: usize) -> Vec<Vec<Step>> {
    let mut v: Vec<Vec<Step>> = Vec::new();
    // taiko with two different Random seeds, mania convert with Random and key mods, osu, plus gradual walks
    let bases: Vec<(u8, u8, u8)> = vec![(0, 0, 0), (1, 1, 2), (1, 1, 3), (0, 3, 2), (0, 3, 4), (2, 3, 3), (0, 1, 1), (0, 2, 1), (5, 2, 5), (6, 2, 1), (7, 3, 0), (8, 3, 0), (9, 3, 4), (9, 3, 6), (11, 3, 0), (12, 1, 0), (13, 1, 1), (14, 0, 0)];
    for &(map, dst, s) in &bases {
        let mut a = vec![Step::Difficulty { map, dst, s }, Step::Performance { map, dst, s }, Step::Strains { map, dst, s }];
        a.truncate(len);
        v.push(a);
        let mut b = vec![Step::GradualNew { map, dst, s }, Step::GradualNext, Step::GradualNext];
        b.truncate(len);
        v.push(b);
    }
    let mut c = vec![Step::Convert { map: 0, dst: 3, s: 3 }, Step::GradualPerfNew { map: 0, dst: 3, s: 2 }, Step::GradualPerfNext];
    c.truncate(len);
    v.push(c);
    // clones of one prepared calculator, each thread with its own Difficulty
    for (s0, s1) in [(0u8, 2u8), (1, 4)] {
        let mut e = vec![Step::ClonedPerformance { base: 0, s: s0 }, Step::ClonedPerformance { base: 1, s: s1 }, Step::ClonedPerformance { base: 0, s: s0 }];
        e.truncate(len);
        v.push(e);
    }
    v
}

// ---------------------------------------------------------------- (D) shared-access preemption (E4)

/// Jobs of at most two calls; the second call of a job often repeats the first (a warm cache is where check-then-use shows).
fn guard_jobs() -> Vec<Vec<Step>> {
    let twice = |a: Step| vec![a, a];
    vec![
        vec![Step::Difficulty { map: 0, dst: 0, s: 0 }, Step::Performance { map: 0, dst: 0, s: 0 }],
        twice(Step::Difficulty { map: 1, dst: 1, s: 2 }),
        twice(Step::Difficulty { map: 1, dst: 1, s: 3 }),
        vec![Step::Convert { map: 0, dst: 3, s: 2 }, Step::Difficulty { map: 0, dst: 3, s: 2 }],
        vec![Step::Difficulty { map: 0, dst: 3, s: 3 }, Step::Strains { map: 0, dst: 3, s: 3 }],
        vec![Step::Difficulty { map: 0, dst: 3, s: 4 }, Step::Performance { map: 0, dst: 3, s: 4 }],
        vec![Step::GradualNew { map: 1, dst: 1, s: 2 }, Step::GradualNext],
        vec![Step::Difficulty { map: 0, dst: 2, s: 1 }, Step::Performance { map: 0, dst: 2, s: 1 }],
        twice(Step::Difficulty { map: 2, dst: 3, s: 3 }),
        vec![Step::GradualPerfNew { map: 0, dst: 3, s: 2 }, Step::GradualPerfNext],
        vec![Step::Convert { map: 0, dst: 1, s: 3 }, Step::Strains { map: 0, dst: 1, s: 3 }],
        vec![Step::Decode, Step::Decode],
        twice(Step::Difficulty { map: 5, dst: 2, s: 5 }),
        vec![Step::Difficulty { map: 6, dst: 2, s: 1 }, Step::Difficulty { map: 6, dst: 2, s: 5 }],
        vec![Step::Convert { map: 7, dst: 3, s: 0 }, Step::Difficulty { map: 7, dst: 3, s: 0 }],
        twice(Step::Difficulty { map: 8, dst: 3, s: 0 }),
        vec![Step::Convert { map: 9, dst: 3, s: 4 }, Step::Difficulty { map: 9, dst: 3, s: 4 }],
        vec![Step::Convert { map: 9, dst: 3, s: 6 }, Step::Difficulty { map: 9, dst: 3, s: 6 }],
        vec![Step::Difficulty { map: 10, dst: 0, s: 0 }, Step::Strains { map: 10, dst: 0, s: 0 }],
        vec![Step::Difficulty { map: 10, dst: 1, s: 0 }, Step::Difficulty { map: 10, dst: 0, s: 1 }],
        twice(Step::Difficulty { map: 11, dst: 3, s: 0 }),
        twice(Step::Difficulty { map: 12, dst: 1, s: 0 }),
        vec![Step::Difficulty { map: 14, dst: 0, s: 0 }, Step::Strains { map: 14, dst: 0, s: 1 }],
        vec![Step::Difficulty { map: 13, dst: 1, s: 1 }, Step::Strains { map: 13, dst: 1, s: 1 }],
        vec![Step::Strains { map: 11, dst: 3, s: 0 }, Step::Performance { map: 11, dst: 3, s: 0 }],
        vec![Step::ClonedPerformance { base: 0, s: 0 }, Step::ClonedPerformance { base: 1, s: 2 }],
        vec![Step::ClonedPerformance { base: 0, s: 1 }, Step::ClonedPerformance { base: 1, s: 4 }],
    ]
}

thread_local! {
    static GUARD_TS: std::cell::RefCell<ThreadState> = std::cell::RefCell::new(ThreadState::default());
}

/// Execution process of E4: `--guard-run <job0> <job1|solo> <choices> <hot>`; one schedule, wire format on stdout.
fn guard_run(args: &[String]) {
    use vh::guard;
    guard::arm_alarm(30);
    let jobs = guard_jobs();
    let j0: usize = args[0].parse().expect("job index");
    let j1: Option<usize> = args[1].parse().ok();
    let prefix = guard::choices_from_arg(&args[2]);
    let hot = guard::hot_from_arg(&args[3]);
    let (maps, input_region) = guard::place_in_own_pages(maps(), "Beatmap structs shared by reference");
    let mut regions = match guard::library_static_regions() {
        Ok(r) => r,
        Err(e) => {
            eprintln!("guard: {e}");
            std::process::exit(3);
        }
    };
    regions.push(input_region);
    for (i, r) in regions.iter().enumerate() {
        println!("G {i} {} {}", r.len, r.name);
    }
    let world = World::new(maps);
    let job_of = |tid: u8| if tid == 0 { j0 } else { j1.unwrap_or(0) };
    let calls = [jobs[j0].len(), j1.map_or(0, |j| jobs[j].len())];
    let out = guard::run_two(guard::RunCfg { regions, hot, prefix, max_points: 20_000 }, calls, &|tid, c| GUARD_TS.with(|ts| world.exec(&mut ts.borrow_mut(), jobs[job_of(tid)][c])));
    print!("{}", out.to_wire());
    // sticky corruption: the same jobs once more, one after the other, unguarded
    for (t, j) in [Some(j0), j1].into_iter().enumerate() {
        if let Some(j) = j {
            let mut st = ThreadState::default();
            for (i, step) in jobs[j].iter().enumerate() {
                println!("Q {t} {i} {:x}", world.exec(&mut st, *step));
            }
        }
    }
}

// ---------------------------------------------------------------- (B) hand-over

trait Walk: Send {
    fn step(&mut self) -> String;
}

struct W<G, F: FnMut(&mut G) -> String + Send>(G, F);
impl<G: Send, F: FnMut(&mut G) -> String + Send> Walk for W<G, F> {
    fn step(&mut self) -> String {
        (self.1)(&mut self.0)
    }
}

/// Constructors of every gradual calculator that is `Send` in this build.
fn walkers(maps: &[Beatmap]) -> Vec<(&'static str, Box<dyn Fn() -> Box<dyn Walk> + Sync + '_>)> {
    use rosu_pp::{catch::CatchGradualDifficulty, mania::ManiaGradualDifficulty, osu::OsuGradualDifficulty};
    let st = || ScoreState { n300: 1, n100: 1, max_combo: 2, ..ScoreState::new() };
    let mut v: Vec<(&'static str, Box<dyn Fn() -> Box<dyn Walk> + Sync + '_>)> = vec![
        ("OsuGradualDifficulty", Box::new(|| Box::new(W(OsuGradualDifficulty::new(Difficulty::new().mods(settings::HR), &maps[0]).expect("osu"), |g: &mut OsuGradualDifficulty| format!("{:?}", g.next()))))),
        ("CatchGradualDifficulty(convert)", Box::new(|| Box::new(W(CatchGradualDifficulty::new(Difficulty::new(), &maps[0]).expect("catch"), |g: &mut CatchGradualDifficulty| format!("{:?}", g.next()))))),
        ("ManiaGradualDifficulty", Box::new(|| Box::new(W(ManiaGradualDifficulty::new(Difficulty::new().clock_rate(1.2), &maps[2]).expect("mania"), |g: &mut ManiaGradualDifficulty| format!("{:?}", g.next()))))),
        ("OsuGradualPerformance", Box::new(move || Box::new(W(rosu_pp::osu::OsuGradualPerformance::new(Difficulty::new(), &maps[0]).expect("osu"), move |g: &mut rosu_pp::osu::OsuGradualPerformance| format!("{:?}", g.next(st().into())))))),
    ];
    #[cfg(feature = "sync")]
    {
        use rosu_pp::{taiko::TaikoGradualDifficulty, GradualDifficulty, GradualPerformance};
        v.push(("TaikoGradualDifficulty [sync]", Box::new(|| Box::new(W(TaikoGradualDifficulty::new(Difficulty::new().mods(settings::DT), &maps[1]).expect("taiko"), |g: &mut TaikoGradualDifficulty| format!("{:?}", g.next()))))));
        v.push(("TaikoGradualDifficulty(convert, Random) [sync]", Box::new(|| Box::new(W(TaikoGradualDifficulty::new(ModSpec::Random(Some(5.0)).build(gen::game_mode(1)).pipe_difficulty(), &maps[0]).expect("taiko"), |g: &mut TaikoGradualDifficulty| format!("{:?}", g.next()))))));
        v.push(("TaikoGradualDifficulty(40 hits) [sync]", Box::new(|| Box::new(W(TaikoGradualDifficulty::new(Difficulty::new(), &maps[3]).expect("taiko"), |g: &mut TaikoGradualDifficulty| format!("{:?}", g.next()))))));
        v.push(("GradualDifficulty(any, taiko) [sync]", Box::new(|| Box::new(W(GradualDifficulty::new(Difficulty::new(), &maps[1]), |g: &mut GradualDifficulty| format!("{:?}", g.next()))))));
        v.push(("GradualPerformance(any, taiko) [sync]", Box::new(move || Box::new(W(GradualPerformance::new(Difficulty::new(), &maps[1]), move |g: &mut GradualPerformance| format!("{:?}", g.next(st())))))));
    }
    v
}

#[cfg(feature = "sync")]
trait PipeDifficulty {
    fn pipe_difficulty(self) -> Difficulty;
}
#[cfg(feature = "sync")]
impl PipeDifficulty for rosu_pp::GameMods {
    fn pipe_difficulty(self) -> Difficulty {
        Difficulty::new().mods(self)
    }
}

fn all_sequences(t: u8, n: usize) -> Vec<Vec<u8>> {
    let mut out: Vec<Vec<u8>> = vec![vec![]];
    for _ in 0..n {
        let mut next = Vec::new();
        for s in &out {
            for k in 0..t {
                let mut x = s.clone();
                x.push(k);
                next.push(x);
            }
        }
        out = next;
    }
    out
}

fn main() {
    let argv: Vec<String> = std::env::args().collect();
    if argv.get(1).map(String::as_str) == Some("--guard-run") {
        guard_run(&argv[2..]);
        return;
    }
    let child = std::env::args().any(|a| a == "--child");
    if child {
        std::env::set_var("VERIF_NO_EVIDENCE", "1");
    }
    let ctx = Ctx::from_env("C20");
    ctx.rule("(A) interference: every assignment of jobs (difficulty / performance / strains calls, gradual difficulty and gradual performance walks split into their steps; clones of one prepared calculator given different Difficulty values; taiko and mania conversions with two different Random seeds and key mods; shared &Beatmap) from a pool to T threads and every interleaving of the threads' calls (T=2 x 3 calls: 20 schedules per assignment; T=3 x 2 calls: 90; thorough T=3 x 3: 1680) executed on real OS threads under the baton scheduler; oracle = every call returns the value it returns when its thread runs alone, shared maps unchanged. (B) hand-over: every gradual calculator that is Send in this build (all of them in the `sync` build, which the default build runs as a child) is moved between T <= 3 threads at the step boundaries: all T^n ownership sequences, n <= 4 (quick) / 5, incl. create on one thread and drop on another; oracle = the single-thread sequence. (D) shared-access preemption: 27 jobs of two calls, all 378 unordered pairs on two real threads with the pages of the library's writable statics and of the shared Beatmap structs protected; scheduling points = thread start, call boundaries, every write to a guarded region, every read of a location some job writes; every choice vector with <= 2 preemptions, each execution in a fresh process; oracle = every call returns what it returns when its job runs alone in a fresh process, also when repeated sequentially after the concurrent run. (C) free-running: the (A) job bodies on 16 unsynchronised threads for a fixed number of rounds against the sequential table — sampling, reported separately under coverage.free_running and not part of the exhaustive claim; non-trivial = schedules with more than one thread / ownership sequences that change thread");
    ctx.assume("(A)/(B) switch threads at public call boundaries only; that is complete iff two calculations share no mutable location, which (D) checks on this very build: every access to the library's writable statics (found in the binary's symbol table) and to the shared Beatmap structs is intercepted, and where a job writes such a location all schedules with <= 2 preemptions at those accesses are explored. Outside every exhaustive part: heap state reached only through a pointer stored in a static, weak-memory reorderings; (C) samples those");

    let world = World::new(Box::leak(maps().into_boxed_slice()));
    let pristine = world.maps.to_vec();
    let quick = ctx.quick();

    // the `sync` build of this checker runs concurrently as a child
    let child_handle = if !child && ctx.replay.is_none() && ctx.worker.is_none() {
        let root = std::path::PathBuf::from(std::env::var("VERIF_ROOT").unwrap_or_else(|_| "/verif".into()));
        let exe = root.join("target/feat-sync/release/c20");
        let tier = ctx.tier.name();
        Some(std::thread::spawn(move || (exe.clone(), std::process::Command::new(&exe).args(["--tier", tier, "--child"]).output())))
    } else {
        None
    };

    // ---- (A)
    let configs: Vec<(usize, usize)> = if quick { vec![(2, 3), (3, 2)] } else { vec![(2, 3), (3, 2), (3, 3), (4, 2)] };
    for (t, len) in configs {
        let mut pool = jobs(len);
        // three threads draw from the first 9 jobs (osu, taiko x 2 Random seeds, mania convert, gradual walks), four from 6:
        // the number of assignments x schedules grows too fast otherwise (T=3x3: 165 x 1680, T=4x2: 126 x 2520)
        if t == 3 {
            pool.truncate(9);
        } else if t >= 4 {
            pool.truncate(6);
        }
        let refs: Vec<Vec<u64>> = pool.iter().map(|j| world.reference(j)).collect();
        let scheds = interleavings(&vec![len; t]);
        let n_assign = (pool.len() as u64).pow(t as u32);
        // T >= 3 with the full pool is large: restrict to assignments with non-decreasing job index (threads are symmetric)
        let assigns: Vec<Vec<usize>> = {
            let mut v = Vec::new();
            for a in 0..n_assign {
                let mut x = a;
                let mut idxs = Vec::with_capacity(t);
                for _ in 0..t {
                    idxs.push((x % pool.len() as u64) as usize);
                    x /= pool.len() as u64;
                }
                if idxs.windows(2).all(|w| w[0] <= w[1]) {
                    v.push(idxs);
                }
            }
            v
        };
        let name = format!("A-interference/T{t}x{len}calls/{}assignments-x-{}schedules", assigns.len(), scheds.len());
        // every schedule runs in a worker *process* of its own batch: schedules explored in parallel must not share an
        // address space, otherwise a failure could stem from the neighbouring case instead of the schedule under test
        ctx.universe_isolated(&name, assigns.len() as u64 * scheds.len() as u64, 20.0, 2048, |idx, l: &mut Local<'_>| {
            let a = &assigns[(idx / scheds.len() as u64) as usize];
            let sch = &scheds[(idx % scheds.len() as u64) as usize];
            if l.want_sample() {
                let mut o = J::obj();
                o.set("universe", J::s(name.clone()));
                o.set("index", J::i(idx));
                o.set("threads", J::s(format!("{:?}", a.iter().map(|j| &pool[*j]).collect::<Vec<_>>())));
                o.set("schedule", J::s(format!("{sch:?}")));
                l.sample(o);
            }
            l.nontrivial();
            l.states(1);
            let world = World::new(world.maps);
            let r = baton::run_schedule_with(t, sch, |_| ThreadState::default(), |tid, step, st| world.exec(st, pool[a[tid as usize]][step]));
            match r {
                Err(e) => l.violation("schedule_failed", || format!("threads={a:?} schedule={sch:?}\n{e}")),
                Ok(res) => {
                    for (tid, got) in res.iter().enumerate() {
                        l.checked(got.len() as u64);
                        if *got != refs[a[tid]] {
                            let k = got.iter().zip(&refs[a[tid]]).position(|(x, y)| x != y).unwrap_or(0);
                            l.violation("interference", || {
                                format!("threads run jobs {:?}\nschedule (thread ids in call order) = {sch:?}\nthread {tid}, call #{k} = {:?} returned digest {:x} but {:x} when the thread runs alone", a.iter().map(|j| &pool[*j]).collect::<Vec<_>>(), pool[a[tid]][k], got[k], refs[a[tid]][k])
                            });
                            return;
                        }
                    }
                }
            }
        });
    }
    if world.maps != &pristine[..] {
        ctx.add_violation(vh::ctx::Violation { class: "shared_map_modified".into(), universe: "A-interference".into(), idx: 0, msg: "a map shared by reference was modified".into() });
    }

    // ---- (B)
    let walkers = walkers(world.maps);
    let n_steps = ctx.pick(4usize, 5);
    for busy in [false, true] {
    for (wi, (wname, mk)) in walkers.iter().enumerate() {
        let reference: Vec<String> = {
            let mut w = mk();
            (0..n_steps).map(|_| w.step()).collect()
        };
        // plain variant: all 3^(n+1) ownership sequences (+ the thread that drops it). busy variant: the calculator is a long
        // taiko walk (32 steps) and the ownership pattern of length n+1 is repeated cyclically
        let n_steps = if busy { 32 } else { n_steps };
        let pat_len = ctx.pick(4usize, 5) + 1;
        let reference: Vec<String> = if busy {
            let mut w = mk();
            (0..n_steps).map(|_| w.step()).collect()
        } else {
            reference
        };
        let seqs: Vec<Vec<u8>> = if busy { all_sequences(3, pat_len).into_iter().map(|p| (0..=n_steps).map(|i| p[i % p.len()]).collect()).collect() } else { all_sequences(3, n_steps + 1) };
        let name = format!("B-handover{}/{wname}/3^{}", if busy { "-busy-threads-32-steps" } else { "" }, pat_len);
        let _ = wi;
        ctx.universe_isolated(&name, seqs.len() as u64, 20.0, 2048, |idx, l: &mut Local<'_>| {
            let seq = &seqs[idx as usize];
            if l.want_sample() {
                let mut o = J::obj();
                o.set("universe", J::s(name.clone()));
                o.set("index", J::i(idx));
                o.set("ownership_sequence", J::s(format!("{seq:?} (last entry = thread that drops the calculator)")));
                l.sample(o);
            }
            if seq.windows(2).any(|w| w[0] != w[1]) {
                l.nontrivial();
            }
            l.states(1);
            // step 0 is executed by seq[0] which also creates the calculator; the last entry only drops it
            let slot: Mutex<Option<Box<dyn Walk>>> = Mutex::new(None);
            let done = std::sync::atomic::AtomicUsize::new(0);
            let private_map = &world.maps[4];
            let r = baton::run_schedule_with(3, seq, |_| if busy { rosu_pp::taiko::TaikoGradualDifficulty::new(Difficulty::new(), private_map).ok() } else { None }, |_tid, _, private| {
                if let Some(p) = private.as_mut() {
                    let _ = p.next();
                }
                let mut s = slot.lock().unwrap();
                let k = done.fetch_add(1, std::sync::atomic::Ordering::SeqCst);
                if k == n_steps {
                    // the last owner only drops the calculator (possibly a thread that never used it)
                    drop(s.take());
                    return String::from("dropped");
                }
                if s.is_none() {
                    *s = Some(mk());
                }
                s.as_mut().map(|w| w.step()).unwrap_or_default()
            });
            match r {
                Err(e) => l.violation("handover_failed", || format!("{wname} ownership={seq:?}\n{e}")),
                Ok(res) => {
                    // rebuild the global order of results from the schedule
                    let mut cursors = [0usize; 3];
                    let mut got = Vec::new();
                    for &tid in seq.iter() {
                        got.push(res[tid as usize][cursors[tid as usize]].clone());
                        cursors[tid as usize] += 1;
                    }
                    // the final entry executed one more step on the dropping thread: compare the first n_steps, then drop there
                    l.checked(n_steps as u64);
                    if got[..n_steps] != reference[..] {
                        let k = got.iter().zip(&reference).position(|(x, y)| x != y).unwrap_or(0);
                        l.violation("handover", || format!("{wname} ownership sequence {seq:?}: step {k} yields\n {}\nbut on a single thread\n {}", got[k], reference[k]));
                    }
                }
            }
            drop(slot);
        });
    }
    }

    // ---- (D) shared-access preemption (default build only; the sync build shares the same statics)
    if !child && ctx.worker.is_none() {
        use std::sync::atomic::{AtomicBool, AtomicU64, Ordering};
        use vh::guard;
        let exe = std::env::current_exe().expect("own path");
        let gjobs = guard_jobs();
        // profile: every job alone (reference digests; which guarded locations it writes)
        let mut refs: Vec<Vec<u64>> = Vec::new();
        let mut hot: Vec<(u16, u32)> = Vec::new();
        let mut written_by: Vec<std::collections::BTreeSet<(u16, u32)>> = Vec::new();
        let mut region_names: Vec<String> = Vec::new();
        let (mut solo_reads, mut solo_writes) = (0u64, 0u64);
        let mut ok = true;
        for j in 0..gjobs.len() {
            match guard::run_child(&exe, &["--guard-run".into(), j.to_string(), "solo".into()], &[], &[]) {
                Ok((o, _)) => {
                    if o.probe[0] != o.results[0] {
                        ctx.add_violation(vh::ctx::Violation { class: "guard_solo_differs".into(), universe: "D-shared-access/profile".into(), idx: j as u64, msg: format!("job {:?} alone: the calls return {:x?} and, repeated in the same process, {:x?}", gjobs[j], o.results[0], o.probe[0]) });
                    }
                    refs.push(o.results[0].clone());
                    written_by.push(o.written.iter().copied().collect());
                    hot.extend(o.written.iter().copied());
                    solo_reads += o.reads;
                    solo_writes += o.writes;
                    region_names = o.region_names;
                }
                Err(e) => {
                    ctx.machinery_error(format!("E4 profile run of job {j}: {e}"));
                    ok = false;
                    break;
                }
            }
        }
        hot.sort_unstable();
        hot.dedup();
        if ok {
            let mut pairs: Vec<(usize, usize)> = (0..gjobs.len()).flat_map(|a| (a..gjobs.len()).map(move |b| (a, b))).collect();
            // pairs whose jobs both write one guarded location first: they are where an interleaving can matter, and their
            // executions are the expensive ones, so a wall budget must not run out before they start (stable sort: on a tree
            // without such writes the order is unchanged)
            pairs.sort_by_key(|&(a, b)| written_by[a].intersection(&written_by[b]).next().is_none());
            let bound_max = 2usize;
            let max_runs: u64 = ctx.pick(150, 40_000);
            let hard_stop = std::time::Instant::now() + std::time::Duration::from_secs(ctx.pick(120, 1500));
            let conflict_runs: u64 = std::env::var("VERIF_E4_CONFLICT_RUNS").ok().and_then(|v| v.parse().ok()).unwrap_or(4000);
            let (runs, hot_points, max_points, reads, writes) = (AtomicU64::new(0), AtomicU64::new(0), AtomicU64::new(0), AtomicU64::new(0), AtomicU64::new(0));
            let capped_pairs = AtomicU64::new(0);
            let bound1_complete = AtomicBool::new(true);
            let name = format!("D-shared-access-preemption/{}jobs/{}pairs/bound<={bound_max}", gjobs.len(), pairs.len());
            ctx.universe(&name, pairs.len() as u64, |idx, l| {
                let (a, b) = pairs[idx as usize];
                let base = vec!["--guard-run".to_owned(), a.to_string(), b.to_string()];
                if l.want_sample() {
                    let mut o = J::obj();
                    o.set("universe", J::s(name.clone()));
                    o.set("index", J::i(idx));
                    o.set("thread0", J::s(format!("{:?}", gjobs[a])));
                    o.set("thread1", J::s(format!("{:?}", gjobs[b])));
                    o.set("schedules", J::s("every choice vector with <= 2 preemptions over: thread start, call boundaries, every write to a guarded region, every read of a location some job writes"));
                    l.sample(o);
                }
                l.nontrivial();
                let check = |o: &guard::RunOut| -> Option<String> {
                    reads.fetch_add(o.reads, Ordering::Relaxed);
                    writes.fetch_add(o.writes, Ordering::Relaxed);
                    for (t, j) in [a, b].into_iter().enumerate() {
                        if o.results[t] != refs[j] {
                            let k = o.results[t].iter().zip(&refs[j]).position(|(x, y)| x != y).unwrap_or(0);
                            return Some(format!("thread {t} call #{k} {:?} returned digest {:x} but {:x} when the job runs alone", gjobs[j].get(k), o.results[t].get(k).copied().unwrap_or(0), refs[j].get(k).copied().unwrap_or(0)));
                        }
                        if o.probe[t] != refs[j] {
                            return Some(format!("after the concurrent run, job {:?} repeated sequentially returns {:x?} instead of {:x?} (state left behind by the interleaving)", gjobs[j], o.probe[t], refs[j]));
                        }
                    }
                    None
                };
                // two jobs that both write one guarded location are where an interleaving can matter at all: such a pair gets a
                // larger budget in the quick tier too, spent on preemptions at the writes first (on a tree whose jobs write no
                // guarded location neither applies and nothing is spent)
                let conflicting = written_by[a].intersection(&written_by[b]).next().is_some();
                let max_runs = if conflicting { max_runs.max(conflict_runs) } else { max_runs };
                for bound in 1..=bound_max {
                    // (a search that outlives the tier's wall budget is cut and reported as capped: with ~1 s per execution on
                    // the longest maps a conflicting pair could otherwise run for hours)
                    let mut stats = guard::ExploreStats { deadline: Some(hard_stop), ..Default::default() };
                    let r = guard::explore_ordered(&|p| guard::run_child(&exe, &base, p, &hot).map(|x| x.0), &check, bound, max_runs, &mut stats, conflicting);
                    runs.fetch_add(stats.runs, Ordering::Relaxed);
                    hot_points.fetch_add(stats.hot_points_seen, Ordering::Relaxed);
                    max_points.fetch_max(stats.max_points as u64, Ordering::Relaxed);
                    l.states(stats.runs);
                    l.checked(stats.runs * 2 * (gjobs[a].len() + gjobs[b].len()) as u64);
                    if stats.capped {
                        capped_pairs.fetch_add(1, Ordering::Relaxed);
                        if bound == 1 {
                            bound1_complete.store(false, Ordering::Relaxed);
                        }
                    }
                    match r {
                        Err(e) => {
                            // an engine failure (execution process died, replay diverged) is never a verdict
                            l.ctx.machinery_error(format!("E4 engine failure on jobs {:?} / {:?}: {e}", gjobs[a], gjobs[b]));
                            return;
                        }
                        Ok(Some((ch, msg, out))) => {
                            l.violation("shared_access_interference", || {
                                format!("threads run {:?} and {:?}
preemption bound {bound}, choices at the branching points = {}
{msg}
schedule (scheduling points in execution order):
{}", gjobs[a], gjobs[b], guard::choices_to_arg(&ch), guard::describe_points(&out.points, &region_names))
                            });
                            return;
                        }
                        Ok(None) => {}
                    }
                    if stats.capped {
                        break;
                    }
                }
            });
            let mut e4 = J::obj();
            e4.set("guarded_regions", J::Arr(region_names.iter().map(|n| J::s(n.clone())).collect()));
            e4.set("library_writable_statics", J::i(region_names.len().saturating_sub(1) as u64));
            e4.set("locations_written_by_some_job", J::i(hot.len() as u64));
            e4.set("profile_runs", J::i(gjobs.len() as u64));
            e4.set("profile_guarded_reads", J::i(solo_reads));
            e4.set("profile_guarded_writes", J::i(solo_writes));
            e4.set("executions", J::i(runs.load(Ordering::Relaxed)));
            e4.set("guarded_reads_intercepted", J::i(reads.load(Ordering::Relaxed)));
            e4.set("guarded_writes_intercepted", J::i(writes.load(Ordering::Relaxed)));
            e4.set("hot_scheduling_points_seen", J::i(hot_points.load(Ordering::Relaxed)));
            e4.set("max_points_in_one_execution", J::i(max_points.load(Ordering::Relaxed)));
            e4.set("preemption_bound", J::i(bound_max as u64));
            e4.set("pairs_capped", J::i(capped_pairs.load(Ordering::Relaxed)));
            e4.set("bound_1_complete_for_all_pairs", J::Bool(bound1_complete.load(Ordering::Relaxed)));
            e4.set("premise_of_call_level_scheduling", J::s(if hot.is_empty() { "holds for these jobs: no guarded location (library static or shared Beatmap struct) is written by any job, so calls of different threads commute at every finer grain" } else { "does not hold: some guarded location is written; schedules at the accesses were explored" }));
            ctx.extra("shared_access_preemption", e4);
        }
    }

    // ---- (C) free-running, sampling
    {
        // the job pool, plus many more Random seeds (per-call global state such as a seed-keyed cache needs two different
        // keys in flight at the same time to show)
        let mut pool = jobs(3);
        for dst in [1u8, 3] {
            for s in [2u8, 3] {
                let map = if dst == 1 { 1 } else { 0 };
                pool.push(vec![Step::Convert { map, dst, s }, Step::Difficulty { map, dst, s }, Step::Convert { map, dst, s }]);
                pool.push(vec![Step::Strains { map, dst, s }, Step::Convert { map, dst, s }, Step::Performance { map, dst, s }]);
            }
        }
        let refs: Vec<Vec<u64>> = pool.iter().map(|j| world.reference(j)).collect();
        let rounds: usize = ctx.pick(3000, 40_000);
        let threads = 16usize;
        let mismatches = std::sync::atomic::AtomicU64::new(0);
        let first: Mutex<Option<String>> = Mutex::new(None);
        let barrier = std::sync::Barrier::new(threads);
        std::thread::scope(|s| {
            for tid in 0..threads {
                let (pool, refs, world, mismatches, first, barrier) = (&pool, &refs, &world, &mismatches, &first, &barrier);
                s.spawn(move || {
                    for r in 0..rounds {
                        let j = (tid * 7 + r * 13 + (ctx.seed as usize)) % pool.len();
                        barrier.wait();
                        let mut st = ThreadState::default();
                        for (k, step) in pool[j].iter().enumerate() {
                            let d = world.exec(&mut st, *step);
                            if d != refs[j][k] {
                                mismatches.fetch_add(1, std::sync::atomic::Ordering::Relaxed);
                                let mut f = first.lock().unwrap();
                                if f.is_none() {
                                    *f = Some(format!("round {r}, thread {tid}: {step:?} returned digest {d:x}, sequentially {:x}", refs[j][k]));
                                }
                            }
                        }
                    }
                });
            }
        });
        let mm = mismatches.load(std::sync::atomic::Ordering::Relaxed);
        let mut fr = J::obj();
        fr.set("kind", J::s("sampling (free-running OS threads, not exhaustive)"));
        fr.set("threads", J::i(threads as u64));
        fr.set("rounds", J::i(rounds as u64));
        fr.set("calls_compared", J::i((threads * rounds * 3) as u64));
        fr.set("mismatches", J::i(mm));
        ctx.extra("free_running", fr);
        if mm > 0 {
            ctx.add_violation(vh::ctx::Violation {
                class: "free_running_interference".into(),
                universe: "C-free-running".into(),
                idx: 0,
                msg: format!("{mm} calls returned a different value under free-running concurrency than sequentially; first: {}", first.lock().unwrap().clone().unwrap_or_default()),
            });
        }
    }

    if child {
        ctx.finish_as_child();
    }
    if let Some(h) = child_handle {
        match h.join() {
            Ok((_, Ok(o))) => {
                let text = String::from_utf8_lossy(&o.stdout);
                if !ctx.merge_child(&text, "sync:") {
                    ctx.machinery_error(format!("the sync build of the checker did not complete ({:?})", o.status));
                }
            }
            Ok((exe, Err(e))) => ctx.machinery_error(format!("cannot run {}: {e}", exe.display())),
            Err(_) => ctx.machinery_error("child thread died".into()),
        }
    }
    ctx.finish();
}
