use vh::gen::*;
fn negs(map:&rosu_pp::Beatmap)->usize{ if let rosu_pp::any::Strains::Taiko(s) = rosu_pp::Difficulty::new().strains(map) { s.color.iter().chain(&s.rhythm).chain(&s.stamina).chain(&s.reading).filter(|x| **x < 0.0).count() } else {0} }
fn main(){
    // motifs repeated
    for (gaps, name) in [(vec![400u32,1200,3600],"A"),(vec![75,300,1600],"B"),(vec![110,250],"C"),(vec![150,400,1000],"D")] {
        let alpha = Alphabet::product(&[Kind::Circle], &gaps, &[PosK::Far], &[0,8], &[0]);
        for (mlen,reps) in [(3u32,3u32),(2,6),(4,2)] {
            let mut hits=0; let mut first=None; let total=alpha.count_upto(mlen);
            for i in 1..total { let spec=MapSpec{repeat:reps,..MapSpec::new(1,alpha.seq(i,mlen))}; let m=spec.decode(); if negs(&m)>0 { hits+=1; if first.is_none(){first=Some(spec.describe());} } }
            println!("gaps {name} mlen {mlen} reps {reps}: {hits}/{total} with negative peaks; first: {:?}", first.map(|s| s.chars().take(400).collect::<String>()));
        }
        // plain sequences N<=5 / 6
        let mut hits=0; let total=alpha.count_upto(6); let mut minlen=99;
        for i in 1..total { let objs=alpha.seq(i,6); let n=objs.len(); let spec=MapSpec::new(1,objs); if negs(&spec.decode())>0 { hits+=1; minlen=minlen.min(n);} }
        println!("gaps {name} plain N<=6: {hits}/{total} minlen {minlen}");
    }
}
