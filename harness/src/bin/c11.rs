//! C11 — unsafe code never performs an invalid memory access.
//!
//! E2 explorations whose executions are *monitored* by Miri (undefined behaviour) and by debug
//! assertions; the enumeration is what makes the statement exhaustive within the bound:
//!  * StrainsVec vs a plain Vec<f64> under every operation history (native: release + vdebug workers,
//!    both raw_strains settings; Miri: smaller depth),
//!  * gradual calculators moved / boxed / swapped / dropped at every point (Miri),
//!  * the decoder's borrowed-pointer scratch buffer on every path-string error position (Miri),
//!  * TandemSorter / legacy sorts / LimitedQueue against std references.

use std::{collections::HashMap, path::PathBuf, process::Command};

use rosu_pp::{
    any::DifficultyAttributes,
    verif::{csharp_sort, osu_legacy_sort, LimitedQueue, StrainsVec, TandemSorter},
    Beatmap, Difficulty, GradualDifficulty,
};
use vh::{
    api,
    cmp::same,
    ctx::{UniverseStat, Violation},
    gen::{Kind, MapSpec, Obj, PosK},
    json::J,
    Ctx,
};

// ------------------------------------------------------------------------------------------ StrainsVec

const PUSH_VALUES: [f64; 10] = [1.0, 2.5, 5e-324, f64::MIN_POSITIVE, f64::INFINITY, 0.0, -0.0, -1.0, f64::NAN, -f64::NAN];

#[derive(Clone, Copy, Debug, PartialEq)]
enum SOp {
    Push(u8),
    Len,
    Iter,
    Sum,
    Clone,
    RetainNonZero,
    SortDesc,
    RetainAndSort,
    ScaleHalf,
    // terminal
    IntoVec,
    TransmuteIntoVec,
}

/// What the compact list stores for a pushed value (documented contract: entries are non-negative).
fn stored(v: f64) -> f64 {
    // both lists store anything that is not a positive (sign-positive, non-zero) value as zero
    if v.to_bits() > 0 && v.is_sign_positive() {
        v
    } else {
        0.0
    }
}

fn bits(v: &[f64]) -> Vec<u64> {
    // all NaNs compare equal: the payload / sign of an arithmetic NaN result is unspecified (Miri randomises it)
    v.iter().map(|x| if x.is_nan() { 0x7ff8_0000_0000_0000 } else { x.to_bits() }).collect()
}

fn is_zero_entry(x: f64) -> bool {
    if cfg!(feature = "raw_strains") { x == 0.0 } else { x.to_bits() == 0 }
}

/// Replays `hist` on a fresh StrainsVec and on the reference Vec<f64>; Err(msg) on the first disagreement.
/// Returns the reference content and whether the list may contain zeros.
fn strains_run(hist: &[SOp]) -> Result<(Vec<u64>, bool, u64), String> {
    let mut sv = StrainsVec::with_capacity(2);
    let mut rf: Vec<f64> = Vec::new();
    let mut has_zero = false;
    let mut checked = 0u64;
    for (step, op) in hist.iter().enumerate() {
        match op {
            SOp::Push(k) => {
                let v = PUSH_VALUES[*k as usize];
                sv.push(v);
                let s = stored(v);
                if is_zero_entry(s) || (cfg!(feature = "raw_strains") && !(s > 0.0)) {
                    has_zero = true;
                }
                rf.push(s);
            }
            SOp::Len => {
                checked += 1;
                if sv.len() != rf.len() {
                    return Err(format!("step {step}: len()={} but the list holds {} values", sv.len(), rf.len()));
                }
            }
            SOp::Iter => {
                let mut it = sv.iter();
                let mut got = Vec::new();
                let mut remaining = rf.len();
                loop {
                    checked += 1;
                    if it.len() != remaining {
                        return Err(format!("step {step}: iter().len()={} but {remaining} values remain", it.len()));
                    }
                    match it.next() {
                        Some(v) => {
                            got.push(v);
                            remaining = remaining.saturating_sub(1);
                        }
                        None => break,
                    }
                    if got.len() > rf.len() + 2 {
                        break;
                    }
                }
                if bits(&got) != bits(&rf) {
                    return Err(format!("step {step}: iter() yields {got:?} but the list holds {rf:?}"));
                }
            }
            SOp::Sum => {
                checked += 1;
                let (a, b) = (sv.sum(), rf.iter().sum::<f64>());
                if a.to_bits() != b.to_bits() && !(a.is_nan() && b.is_nan()) && !(a == 0.0 && b == 0.0) {
                    return Err(format!("step {step}: sum()={a} but the values add up to {b}"));
                }
            }
            SOp::Clone => {
                let c = sv.clone();
                sv = c;
            }
            SOp::RetainNonZero => {
                sv.retain_non_zero();
                if cfg!(feature = "raw_strains") {
                    rf.retain(|x| *x > 0.0);
                } else {
                    rf.retain(|x| !is_zero_entry(*x));
                }
                has_zero = false;
            }
            SOp::SortDesc => {
                sv.sort_desc();
                rf.sort_by(|a, b| b.total_cmp(a));
            }
            SOp::RetainAndSort => {
                sv.retain_non_zero_and_sort();
                if cfg!(feature = "raw_strains") {
                    rf.retain(|x| *x > 0.0);
                } else {
                    rf.retain(|x| !is_zero_entry(*x));
                }
                rf.sort_by(|a, b| b.total_cmp(a));
                has_zero = false;
            }
            SOp::ScaleHalf => {
                if cfg!(feature = "raw_strains") {
                    rf.retain(|x| *x > 0.0);
                } else {
                    rf.retain(|x| !is_zero_entry(*x));
                }
                rf.sort_by(|a, b| b.total_cmp(a));
                has_zero = false;
                let it = sv.sorted_non_zero_iter_mut();
                checked += 1;
                if it.len() != rf.len() {
                    return Err(format!("step {step}: sorted_non_zero_iter_mut().len()={} but {} non-zero values", it.len(), rf.len()));
                }
                for (x, r) in it.zip(rf.iter_mut()) {
                    if bits(&[*x]) != bits(&[*r]) {
                        return Err(format!("step {step}: sorted_non_zero_iter_mut yields {x} where the reference has {r}"));
                    }
                    // the mutable iterator hands out entries that must stay positive (the list's invariant); x0.75 keeps
                    // every value of the alphabet positive, even the smallest subnormal (5e-324 * 0.75 rounds to 5e-324)
                    *x *= 0.75;
                    *r *= 0.75;
                }
            }
            SOp::IntoVec => {
                checked += 1;
                let got = sv.into_vec();
                if bits(&got) != bits(&rf) {
                    return Err(format!("step {step}: into_vec()={got:?} but the list holds {rf:?}"));
                }
                return Ok((bits(&rf), has_zero, checked));
            }
            SOp::TransmuteIntoVec => {
                checked += 1;
                // SAFETY: only enabled when the list holds no zeros (the documented precondition)
                let got = unsafe { sv.transmute_into_vec() };
                if bits(&got) != bits(&rf) {
                    return Err(format!("step {step}: transmute_into_vec()={got:?} but the list holds {rf:?}"));
                }
                return Ok((bits(&rf), has_zero, checked));
            }
        }
    }
    // observation after every history: full content through iter() and len()
    let got: Vec<f64> = sv.iter().collect();
    checked += 2;
    if bits(&got) != bits(&rf) {
        return Err(format!("after the history: iter() yields {got:?} but the list holds {rf:?}"));
    }
    if sv.len() != rf.len() {
        return Err(format!("after the history: len()={} but the list holds {} values", sv.len(), rf.len()));
    }
    Ok((bits(&rf), has_zero, checked))
}

fn strains_ops(has_zero: bool) -> Vec<SOp> {
    let mut v: Vec<SOp> = (0..PUSH_VALUES.len() as u8).map(SOp::Push).collect();
    v.extend([SOp::Len, SOp::Iter, SOp::Sum, SOp::Clone, SOp::RetainNonZero, SOp::RetainAndSort, SOp::ScaleHalf, SOp::IntoVec]);
    if !has_zero {
        // preconditions of the debug-asserted / unsafe methods
        v.extend([SOp::SortDesc, SOp::TransmuteIntoVec]);
    }
    v
}

/// Arithmetic on a NaN entry may yield a NaN of either sign, which the list's encoding cannot represent: scaling is
/// only enabled while the list holds no NaN (well-formed maps never produce NaN strains, see C09).
fn strains_ops_for(content: &[u64], has_zero: bool) -> Vec<SOp> {
    let mut v = strains_ops(has_zero);
    if content.iter().any(|b| f64::from_bits(*b).is_nan()) {
        v.retain(|o| *o != SOp::ScaleHalf);
    }
    v
}

/// BFS from `prefix` up to total depth `max_depth`; key = (reference content, may-contain-zero flag).
fn strains_bfs(prefix: &[SOp], max_depth: usize) -> (u64, u64, u64, Option<(Vec<SOp>, String)>) {
    let mut seen: HashMap<(Vec<u64>, bool), ()> = HashMap::new();
    let mut frontier: Vec<Vec<SOp>> = Vec::new();
    let (mut states, mut transitions, mut checked) = (0u64, 0u64, 0u64);
    match strains_run(prefix) {
        Err(m) => return (states, transitions, checked, Some((prefix.to_vec(), m))),
        Ok((k, z, c)) => {
            checked += c;
            seen.insert((k, z), ());
            states += 1;
            frontier.push(prefix.to_vec());
        }
    }
    while let Some(h) = frontier.pop() {
        if h.len() >= max_depth {
            continue;
        }
        let (content, z) = strains_run(&h).map(|x| (x.0, x.1)).unwrap_or((Vec::new(), true));
        for op in strains_ops_for(&content, z) {
            let mut n = h.clone();
            n.push(op);
            transitions += 1;
            match strains_run(&n) {
                Err(m) => return (states, transitions, checked, Some((n, m))),
                Ok((k, z2, c)) => {
                    checked += c;
                    if matches!(op, SOp::IntoVec | SOp::TransmuteIntoVec) {
                        continue;
                    }
                    if seen.insert((k, z2), ()).is_none() {
                        states += 1;
                        frontier.push(n);
                    }
                }
            }
        }
    }
    (states, transitions, checked, None)
}

// ------------------------------------------------------------------------------------------ gradual lifetimes

#[derive(Clone, Copy, Debug, PartialEq)]
enum GOp {
    Next,
    Nth1,
    IntoBox,
    ThroughVec,
    Swap,
    DropNow,
}

fn small_map(mode: u8) -> Beatmap {
    let o = |k, gap, pos| Obj { kind: k, gap, pos, sound: 0, col: 0 };
    let objs = if mode == 3 {
        vec![o(Kind::Circle, 0, PosK::Same), o(Kind::Hold(300), 150, PosK::Same), o(Kind::Circle, 150, PosK::Same), o(Kind::Circle, 150, PosK::Same)]
    } else {
        vec![o(Kind::Circle, 0, PosK::Same), o(Kind::Slider2, 150, PosK::Far), o(Kind::Circle, 300, PosK::Far), o(Kind::Circle, 150, PosK::Far)]
    };
    let spec = MapSpec::new(mode, objs);
    if mode != 3 {
        return spec.decode();
    }
    // mania: the first note left of the playfield, the last one right of it (files carry any x up to +-131072)
    let text = spec.text();
    let (head, objects) = text.split_once("[HitObjects]\n").expect("section");
    let mut lines: Vec<String> = objects.lines().map(str::to_owned).collect();
    let n = lines.len();
    for (i, x) in [(0, "-100"), (n - 1, "600")] {
        let rest = lines[i].split_once(',').expect("x,rest").1.to_owned();
        lines[i] = format!("{x},{rest}");
    }
    Beatmap::from_bytes(format!("{head}[HitObjects]\n{}\n", lines.join("\n")).as_bytes()).expect("decodes")
}

/// Exact natively; under Miri the last bits of some float intrinsics are perturbed on purpose, so a relative 1e-9 applies.
fn eq_vals(a: &DifficultyAttributes, b: &DifficultyAttributes) -> bool {
    if cfg!(miri) {
        vh::cmp::same_approx(a, b, 1e-9)
    } else {
        same(a, b)
    }
}

enum Holder {
    Plain(GradualDifficulty),
    Boxed(Box<GradualDifficulty>),
}

impl Holder {
    fn get(&mut self) -> &mut GradualDifficulty {
        match self {
            Holder::Plain(g) => g,
            Holder::Boxed(b) => b,
        }
    }
    fn unbox(self) -> GradualDifficulty {
        match self {
            Holder::Plain(g) => g,
            Holder::Boxed(b) => *b,
        }
    }
}

/// Replays a move/drop history; values must equal the unmoved reference sequence.
/// Values for `Difficulty::clock_rate`, whose storage relies on "the clamped value's bits are never zero".
const RATE_NICHE: [f64; 14] = [0.0, -0.0, 5e-324, f64::MIN_POSITIVE, 0.005, 0.01, 1.0, 100.0, 1e308, f64::INFINITY, f64::NEG_INFINITY, -1.0, f64::NAN, 1.234];

/// The setter must store exactly the clamped value (or NaN), without tripping over its unsafe niche encoding.
fn rate_niche_case(v: f64) -> Result<u64, String> {
    let d = Difficulty::new().clock_rate(v);
    let got = d.clone().inspect().clock_rate;
    let ok = match got {
        Some(g) if v.is_nan() => g.is_nan(),
        Some(g) => g.to_bits() == v.clamp(0.01, 100.0).to_bits(),
        None => false,
    };
    if !ok {
        return Err(format!("Difficulty::clock_rate({v:?}) stores {got:?}, expected {:?}", v.clamp(0.01, 100.0)));
    }
    // the stored value is read back on every calculation
    let dbg = format!("{d:?}");
    if !dbg.contains("clock_rate") {
        return Err("Debug output lost the clock rate".into());
    }
    Ok(2)
}

fn limited(limit: Option<u32>) -> Difficulty {
    match limit {
        Some(k) => Difficulty::new().passed_objects(k),
        None => Difficulty::new(),
    }
}

fn gradual_run(map: &Beatmap, mode: u8, limit: Option<u32>, reference: &[DifficultyAttributes], hist: &[GOp]) -> Result<u64, String> {
    let mk = || api::gradual(limited(limit), map, mode).expect("native");
    let mut a = Holder::Plain(mk());
    // a second instance, advanced by one, for swaps
    let mut b = Holder::Plain(mk());
    let _ = b.get().next();
    let (mut pa, mut pb) = (0usize, 1usize.min(reference.len()));
    let mut checked = 0;
    for (step, op) in hist.iter().enumerate() {
        match op {
            GOp::Next | GOp::Nth1 => {
                let k = usize::from(*op == GOp::Nth1);
                let got = if k == 0 { a.get().next() } else { a.get().nth(1) };
                let want = reference.get(pa + k).cloned();
                pa = if pa + k < reference.len() { pa + k + 1 } else { reference.len() };
                checked += 1;
                let ok = match (&got, &want) {
                    (None, None) => true,
                    (Some(x), Some(y)) => eq_vals(x, y),
                    _ => false,
                };
                if !ok {
                    return Err(format!("step {step} {op:?}: got {got:?} but the unmoved calculator yields {want:?}"));
                }
            }
            GOp::IntoBox => {
                a = Holder::Boxed(Box::new(a.unbox()));
            }
            GOp::ThroughVec => {
                let mut v = Vec::with_capacity(1);
                v.push(a.unbox());
                v.reserve(64); // force a reallocation: the calculator is moved again
                a = Holder::Plain(v.pop().expect("one element"));
            }
            GOp::Swap => {
                std::mem::swap(&mut a, &mut b);
                std::mem::swap(&mut pa, &mut pb);
            }
            GOp::DropNow => {
                drop(a);
                // the other instance must be unaffected
                let got = b.get().next();
                let want = reference.get(pb).cloned();
                checked += 1;
                let ok = match (&got, &want) {
                    (None, None) => true,
                    (Some(x), Some(y)) => eq_vals(x, y),
                    _ => false,
                };
                if !ok {
                    return Err(format!("step {step}: after dropping one calculator the other yields {got:?}, expected {want:?}"));
                }
                return Ok(checked);
            }
        }
    }
    Ok(checked)
}

fn gradual_histories(depth: usize) -> Vec<Vec<GOp>> {
    let ops = [GOp::Next, GOp::Nth1, GOp::IntoBox, GOp::ThroughVec, GOp::Swap, GOp::DropNow];
    let mut out: Vec<Vec<GOp>> = vec![vec![]];
    let mut frontier: Vec<Vec<GOp>> = vec![vec![]];
    for _ in 0..depth {
        let mut next = Vec::new();
        for h in &frontier {
            if h.last() == Some(&GOp::DropNow) {
                continue;
            }
            for op in ops {
                let mut n = h.clone();
                n.push(op);
                next.push(n);
            }
        }
        out.extend(next.iter().cloned());
        frontier = next;
    }
    out
}

// ------------------------------------------------------------------------------------------ decoder scratch buffer

fn path_texts() -> Vec<String> {
    let segs = ["B", "L", "P", "C", "200:200", "300:150", "300", "", "x:y", "1e9:1", "250:250|", "B|"];
    let mut out = Vec::new();
    // every path of <= 3 segments after the curve type, followed by a well-formed slider (the scratch buffer is reused)
    let mut paths: Vec<String> = vec![String::new()];
    let mut frontier = vec![String::new()];
    for _ in 0..3 {
        let mut next = Vec::new();
        for p in &frontier {
            for s in segs {
                let n = if p.is_empty() { s.to_owned() } else { format!("{p}|{s}") };
                next.push(n);
            }
        }
        paths.extend(next.iter().cloned());
        frontier = next;
        if paths.len() > 400 {
            break;
        }
    }
    for p in paths {
        out.push(format!(
            "osu file format v14\n[HitObjects]\n100,100,1000,2,0,{p},1,100\n150,150,2000,2,0,B|200:200|250:150|300:300|310:310|320:320|330:330|340:340|350:350,2,300\n10,10,3000,1,0\n"
        ));
    }
    out
}

// ------------------------------------------------------------------------------------------ sorts

/// The tandem sorter on elements that own heap memory (a moved-from slot that is dropped, or a copy that is read twice,
/// shows as a double free / use after free — under Miri as UB, natively as an abort inside an isolated worker).
fn sorts_owning_case(keys: &[u8]) -> Result<u64, String> {
    let items: Vec<(u8, usize)> = keys.iter().copied().enumerate().map(|(i, k)| (k, i)).collect();
    let mut sorter = TandemSorter::new_stable(&items, |a, b| a.0.cmp(&b.0));
    let mut boxed: Vec<Box<(u8, usize)>> = items.iter().map(|x| Box::new(*x)).collect();
    let mut strings: Vec<String> = items.iter().map(|x| format!("{}-{}-some-heap-allocated-text", x.0, x.1)).collect();
    let mut nested: Vec<Vec<u8>> = items.iter().map(|x| vec![x.0; x.1 + 1]).collect();
    sorter.sort(&mut boxed);
    sorter.sort(&mut strings);
    sorter.sort(&mut nested);
    let mut want = items.clone();
    want.sort_by(|x, y| x.0.cmp(&y.0));
    let ok = boxed.iter().map(|b| **b).eq(want.iter().copied()) && strings.iter().zip(&want).all(|(s, w)| *s == format!("{}-{}-some-heap-allocated-text", w.0, w.1)) && nested.iter().zip(&want).all(|(v, w)| v.len() == w.1 + 1 && v.iter().all(|b| *b == w.0));
    drop((boxed, strings, nested));
    if ok {
        Ok(3)
    } else {
        Err(format!("TandemSorter on owning elements: wrong contents after sorting {keys:?}"))
    }
}

fn sorts_case(keys: &[u8]) -> Result<u64, String> {
    // TandemSorter: stable, second slice permuted in tandem, reusable
    let items: Vec<(u8, usize)> = keys.iter().copied().enumerate().map(|(i, k)| (k, i)).collect();
    let mut sorter = TandemSorter::new_stable(&items, |a, b| a.0.cmp(&b.0));
    let mut a = items.clone();
    let mut b: Vec<usize> = (0..keys.len()).collect();
    let mut c: Vec<(u8, usize)> = items.clone();
    sorter.sort(&mut a);
    sorter.sort(&mut b);
    sorter.sort(&mut c);
    let mut want = items.clone();
    want.sort_by(|x, y| x.0.cmp(&y.0));
    if a != want {
        return Err(format!("TandemSorter: {keys:?} sorted to {a:?}, stable sort gives {want:?}"));
    }
    if b != want.iter().map(|x| x.1).collect::<Vec<_>>() || c != want {
        return Err(format!("TandemSorter: second / third slice not permuted in tandem for {keys:?}: {b:?} {c:?}"));
    }
    // csharp sort: a sorted permutation
    let mut d = items.clone();
    csharp_sort(&mut d, |x: &(u8, usize), y: &(u8, usize)| x.0.cmp(&y.0));
    let mut multiset = d.clone();
    multiset.sort();
    let mut orig = items.clone();
    orig.sort();
    if multiset != orig || !d.windows(2).all(|w| w[0].0 <= w[1].0) {
        return Err(format!("csharp sort: {keys:?} -> {d:?}"));
    }
    // limited queue vs the last N pushed values
    let mut q: LimitedQueue<u8, 3> = LimitedQueue::new();
    for (i, k) in keys.iter().enumerate() {
        q.push(*k);
        let (x, y) = q.as_slices();
        let got: Vec<u8> = x.iter().chain(y).copied().collect();
        let want: Vec<u8> = keys[..=i].iter().rev().take(3).rev().copied().collect();
        if got != want || q.len() != want.len() {
            return Err(format!("LimitedQueue<3>: after pushing {:?} holds {got:?}, expected {want:?}", &keys[..=i]));
        }
    }
    Ok(3)
}

fn legacy_sort_case(keys: &[u8]) -> Result<u64, String> {
    // osu_legacy sort works on hit objects: build circles with start_time = key, x = original index
    let text = {
        let mut t = String::from("osu file format v14\n[General]\nMode: 3\n[HitObjects]\n");
        for (i, k) in keys.iter().enumerate() {
            t.push_str(&format!("{},192,{},1,0\n", i * 10, u32::from(*k) * 100));
        }
        t
    };
    let map = Beatmap::from_bytes(text.as_bytes()).map_err(|e| e.to_string())?;
    let mut objs = map.hit_objects.clone();
    osu_legacy_sort(&mut objs);
    let times: Vec<f64> = objs.iter().map(|h| h.start_time).collect();
    if !times.windows(2).all(|w| w[0] <= w[1]) {
        return Err(format!("osu_legacy sort: {keys:?} -> times {times:?}"));
    }
    let mut xs: Vec<i64> = objs.iter().map(|h| h.pos.x as i64).collect();
    xs.sort_unstable();
    if xs != (0..keys.len() as i64).map(|i| i * 10).collect::<Vec<_>>() {
        return Err(format!("osu_legacy sort lost or duplicated objects for {keys:?}"));
    }
    Ok(1)
}

fn key_arrays(max_len: usize) -> Vec<Vec<u8>> {
    let mut out = vec![vec![]];
    let mut frontier: Vec<Vec<u8>> = vec![vec![]];
    for _ in 0..max_len {
        let mut next = Vec::new();
        for h in &frontier {
            for k in 0..3u8 {
                let mut n = h.clone();
                n.push(k);
                next.push(n);
            }
        }
        out.extend(next.iter().cloned());
        frontier = next;
    }
    out
}

// ------------------------------------------------------------------------------------------ Miri body

/// Everything Miri monitors. Prints `MIRI-STEP <what>` before each case and `MIRI-OK ...` at the end.
fn miri_body(thorough: bool, part: &str) {
    let (mut states, mut transitions, mut checked) = (0u64, 0u64, 0u64);
    // (m1) StrainsVec
    let depth = if thorough { 4 } else { 3 };
    if part == "strains" {
        println!("MIRI-STEP strainsvec bfs depth<={depth}");
        let (s, t, c, f) = strains_bfs(&[], depth);
        if let Some((h, m)) = f {
            println!("MIRI-FAIL strainsvec history={h:?} {m}");
            std::process::exit(1);
        }
        states += s;
        transitions += t;
        checked += c;
        // long runs of zero sections (a break of k sections is one stored entry: the logical length runs ahead of the stored
        // one and of the capacity), cloned and used on — what every gradual step does with the peaks of a map with a break
        for k in [3usize, 5, 9, 17] {
            for lead in [Some(0u8), None] {
                let mut h: Vec<SOp> = lead.map(SOp::Push).into_iter().collect();
                h.extend(std::iter::repeat(SOp::Push(5)).take(k));
                h.extend([SOp::Clone, SOp::Push(1), SOp::Sum, SOp::Iter, SOp::Clone, SOp::Len, SOp::IntoVec]);
                println!("MIRI-STEP strainsvec zero run of {k} then clone: {h:?}");
                match strains_run(&h) {
                    Ok((_, _, c)) => {
                        states += 1;
                        transitions += h.len() as u64;
                        checked += c;
                    }
                    Err(m) => {
                        println!("MIRI-FAIL strainsvec history={h:?} {m}");
                        std::process::exit(1);
                    }
                }
            }
        }
    }
    // (m2) gradual lifetimes
    let gdepth = if thorough { 3 } else { 2 };
    let modes: Vec<u8> = part.strip_prefix("gradual").and_then(|m| m.parse().ok()).into_iter().collect();
    for &mode in &modes {
        let map = small_map(mode);
        let reference: Vec<DifficultyAttributes> = api::gradual(Difficulty::new(), &map, mode).expect("native").collect();
        for h in gradual_histories(gdepth) {
            // quick tier: all histories of length <= 1, and of length 2 those that use the calculator after a move
            if !thorough && h.len() == 2 && !matches!(h[0], GOp::IntoBox | GOp::ThroughVec | GOp::Swap) {
                continue;
            }
            println!("MIRI-STEP gradual mode={mode} history={h:?}");
            match gradual_run(&map, mode, None, &reference, &h) {
                Ok(c) => {
                    states += 1;
                    transitions += h.len() as u64;
                    checked += c;
                }
                Err(m) => {
                    println!("MIRI-FAIL gradual mode={mode} history={h:?} {m}");
                    std::process::exit(1);
                }
            }
        }
    }
    // (m2b) a Difficulty that itself carries passed_objects(k): every history of <= 2 (thorough 3) next / nth(1) calls
    for &mode in &modes {
        let map = small_map(mode);
        let limits: &[Option<u32>] = if thorough { &[Some(0), Some(1)] } else { &[Some(0)] };
        for &limit in limits {
            let hs: Vec<Vec<GOp>> = gradual_histories(if thorough { 3 } else { 2 }).into_iter().filter(|h| h.iter().all(|o| matches!(o, GOp::Next | GOp::Nth1))).collect();
            for h in hs {
                println!("MIRI-STEP gradual mode={mode} passed_objects={limit:?} history={h:?}");
                let reference: Vec<DifficultyAttributes> = api::gradual(limited(limit), &map, mode).expect("native").collect();
                match gradual_run(&map, mode, limit, &reference, &h) {
                    Ok(c) => {
                        states += 1;
                        transitions += h.len() as u64;
                        checked += c;
                    }
                    Err(m) => {
                        println!("MIRI-FAIL gradual mode={mode} passed_objects={limit:?} history={h:?} {m}");
                        std::process::exit(1);
                    }
                }
            }
        }
    }
    // (m3) decoder scratch buffer
    let texts = if part == "decode" { path_texts() } else { Vec::new() };
    let take = if thorough { texts.len() } else { 40 };
    for (i, t) in texts.iter().enumerate().take(take) {
        println!("MIRI-STEP decode path #{i}: {}", t.lines().nth(2).unwrap_or(""));
        let r = Beatmap::from_bytes(t.as_bytes());
        states += 1;
        transitions += 1;
        if let Ok(m) = r {
            // the well-formed slider behind the broken one must survive with its 9 control points
            let ok = m.hit_objects.iter().any(|h| h.start_time == 2000.0 && h.is_slider()) && m.hit_objects.iter().any(|h| h.start_time == 3000.0);
            checked += 1;
            if !ok {
                println!("MIRI-FAIL decode path #{i}: the well-formed objects behind the broken slider are missing");
                std::process::exit(1);
            }
        }
    }
    // (m3a) Beatmap helper methods (check_suspicion, bpm, total_break_time, attributes) on maps of 0..=3 objects of every mode
    if part == "decode" {
        for mode in 0..4u8 {
            for n in 0..=3usize {
                println!("MIRI-STEP helpers mode={mode} objects={n}");
                let o = |k, gap| Obj { kind: k, gap, pos: PosK::Far, sound: 0, col: 0 };
                let objs: Vec<Obj> = [o(Kind::Circle, 0), o(if mode == 3 { Kind::Hold(300) } else { Kind::Slider2 }, 150), o(Kind::Circle, 400)].into_iter().take(n).collect();
                let map = MapSpec::new(mode, objs).decode();
                std::hint::black_box((map.check_suspicion().is_ok(), map.bpm(), map.total_break_time(), map.attributes().build()));
                states += 1;
                transitions += 4;
                checked += 4;
            }
        }
    }
    // (m3c) taiko under Relax (colour peaks all zero) on maps that open with swells / a drum roll before the first hit: the
    // merged peak list is built section by section, all-zero sections included
    if part == "decode" {
        // (quick tier: the native taiko map with leading swells; thorough: also the osu! convert and leading drum rolls)
        for (mode, first) in [(1u8, Kind::Spinner(900)), (0, Kind::Spinner(900)), (1, Kind::Slider5)].into_iter().take(if thorough { 3 } else { 1 }) {
            println!("MIRI-STEP taiko relax mode={mode} first={first:?}");
            let o = |k, gap| Obj { kind: k, gap, pos: PosK::Far, sound: 0, col: 0 };
            // four long objects 1000 ms apart (the first two only seed the history, the next two are the first difficulty
            // objects and span whole strain sections before any hit), then eight hits
            let mut objs = vec![o(first, 0), o(first, 1000), o(first, 1000), o(first, 1000), o(Kind::Circle, 1000)];
            objs.extend((0..7).map(|i| Obj { sound: if i % 2 == 0 { 8 } else { 0 }, ..o(Kind::Circle, 200) }));
            let map = MapSpec::new(mode, objs).decode();
            for bits in [128u32, 0] {
                let d = Difficulty::new().mods(bits);
                let a = api::difficulty(&d, &map, 1).expect("taiko reachable");
                let st = api::strains(&d, &map, 1).expect("taiko reachable");
                let n = api::gradual(d, &map, 1).expect("taiko reachable").count();
                std::hint::black_box((a, st, n));
                states += 1;
                transitions += 3;
                checked += 3;
            }
        }
    }
    // (m3b) the niche encoding of Difficulty's clock rate
    if part == "decode" {
        for v in RATE_NICHE {
            println!("MIRI-STEP Difficulty::clock_rate({v:?})");
            match rate_niche_case(v) {
                Ok(c) => {
                    states += 1;
                    transitions += 1;
                    checked += c;
                }
                Err(m) => {
                    println!("MIRI-FAIL {m}");
                    std::process::exit(1);
                }
            }
        }
    }
    // (m4) sorts
    for k in if part == "decode" { key_arrays(if thorough { 5 } else { 3 }) } else { Vec::new() } {
        if let Err(m) = sorts_case(&k).and_then(|_| legacy_sort_case(&k)).and_then(|_| sorts_owning_case(&k)) {
            println!("MIRI-FAIL sorts {m}");
            std::process::exit(1);
        }
        states += 1;
        transitions += 4;
        checked += 4;
    }
    println!("MIRI-OK states={states} transitions={transitions} checked={checked}");
}

fn main() {
    let args: Vec<String> = std::env::args().collect();
    if let Some(p) = args.iter().position(|a| a == "--miri-body") {
        miri_body(args.iter().any(|a| a == "--thorough"), args.get(p + 1).map_or("strains", String::as_str));
        return;
    }

    let ctx = Ctx::from_env("C11");
    ctx.rule("universes: 'strainsvec/*' = BFS over all operation histories (push of 10 values incl. subnormal, +-0, -1, +-NaN, inf; len; iter with ExactSizeIterator::len after every step; sum; clone; retain_non_zero; sort_desc; retain_non_zero_and_sort; sorted_non_zero_iter_mut + scale by 3/4 (values stay positive: the list's invariant); into_vec; transmute_into_vec — preconditions of the unsafe / debug-asserted methods respected) to depth 6 (quick) / 7 from every 2-push prefix, against a plain Vec<f64>, key = (reference content, may-contain-zero flag); executed by this release build and by workers built with debug assertions, for the default and the raw_strains list; 'sorts' = every key array of length <= 7 over 3 keys for TandemSorter (stable, tandem, reuse), the C# introsort port, the legacy hit-object sort and LimitedQueue; 'miri' = the same StrainsVec BFS at depth 3/4 plus zero runs of 3 / 5 / 9 / 17 sections cloned and used on, every move/box/vec/swap/drop history of gradual calculators (depth 2 on osu!+taiko / 3 on all modes; natively to depth 4 in workers built with debug assertions, where an out-of-bounds get_unchecked aborts), the same for calculators built from a Difficulty that carries passed_objects(0|1) (next / nth(1) histories), the decoder on every malformed slider path of <= 3 segments followed by a well-formed slider, the Beatmap helper methods (check_suspicion, bpm, total_break_time, attributes) on maps of 0..=3 objects of every mode, taiko with and without Relax on maps that open with swells / a drum roll, and the sorts, all interpreted by Miri (cargo +nightly miri run): any undefined behaviour fails the check (the mania map of the Miri walks has its first note left and its last note right of the playfield); 'off-playfield/unsafe-contracts' = three objects with x in {+-100000, +-600, -1, 0, 511, 512} squared x y in {-600, 192, 100000} x {circle, long object}, 4 native modes and all conversions, in workers with debug assertions and the contract monitor; non-trivial = every history");
    ctx.assume("Miri is the monitor for invalid accesses; the nightly toolchain with miri is available offline");

    let root = PathBuf::from(std::env::var("VERIF_ROOT").unwrap_or_else(|_| "/verif".into()));
    let thorough = !ctx.quick();

    // Miri in the background while the native explorations run: one interpreter process per part
    let parts: Vec<&'static str> = if thorough { vec!["strains", "gradual0", "gradual1", "gradual2", "gradual3", "decode"] } else { vec!["strains", "gradual0", "gradual1", "decode"] };
    let miri_handles: Vec<_> = if ctx.replay.is_none() && ctx.worker.is_none() {
        // build once (the cargo lock serialises the others anyway)
        parts
            .iter()
            .map(|part| {
                let root = root.clone();
                let part = *part;
                std::thread::spawn(move || {
                    let mut c = Command::new("cargo");
                    c.current_dir(root.join("harness"))
                        .args(["+nightly", "miri", "run", "--offline", "--bin", "c11", "--", "--miri-body", part])
                        .env("CARGO_TARGET_DIR", root.join("target/miri"))
                        .env("RUSTFLAGS", "--cfg rosu_pp_verif")
                        .env("MIRIFLAGS", "-Zmiri-disable-isolation")
                        .env("CARGO_NET_OFFLINE", "true");
                    if thorough {
                        c.arg("--thorough");
                    }
                    (part, c.output())
                })
            })
            .collect()
    } else {
        Vec::new()
    };

    // (1) StrainsVec BFS, one case per 2-push prefix
    let depth = if thorough { 7 } else { 6 };
    let prefixes: Vec<Vec<SOp>> = {
        let mut v = vec![vec![]];
        for a in 0..PUSH_VALUES.len() as u8 {
            v.push(vec![SOp::Push(a)]);
            for b in 0..PUSH_VALUES.len() as u8 {
                v.push(vec![SOp::Push(a), SOp::Push(b)]);
            }
        }
        v
    };
    let body = |idx: u64, l: &mut vh::Local<'_>| {
        let p = &prefixes[idx as usize];
        if l.want_sample() {
            let mut o = J::obj();
            o.set("universe", J::s(l.universe));
            o.set("index", J::i(idx));
            o.set("prefix", J::s(format!("{p:?}")));
            o.set("explored", J::s(format!("BFS over all operation histories extending the prefix up to depth {depth}")));
            l.sample(o);
        }
        let (s, t, c, f) = strains_bfs(p, depth);
        l.states(s);
        l.checked(c);
        let _ = t;
        l.nontrivial();
        if let Some((h, m)) = f {
            l.violation("strainsvec_vs_vec", || format!("history={h:?}\n{m}\n(push values: {PUSH_VALUES:?}; raw_strains={})", cfg!(feature = "raw_strains")));
        }
    };
    ctx.universe("strainsvec/release", prefixes.len() as u64, body);
    ctx.set_worker_exe(Some(root.join("target/vdebug/c11")));
    ctx.universe_isolated("strainsvec/vdebug", prefixes.len() as u64, 60.0, 2048, body);
    ctx.set_worker_exe(Some(root.join("target/feat-raw_strains/vdebug/c11")));
    ctx.universe_isolated("strainsvec/vdebug-raw_strains", prefixes.len() as u64, 60.0, 2048, body);
    ctx.set_worker_exe(None);

    // (2) sorts
    let arrays = key_arrays(7);
    ctx.universe("sorts", arrays.len() as u64, |idx, l| {
        let k = &arrays[idx as usize];
        l.states(1);
        l.nontrivial();
        match sorts_case(k).and_then(|a| legacy_sort_case(k).map(|b| a + b)) {
            Ok(c) => l.checked(c),
            Err(m) => l.violation("sorts", || m),
        }
    });

    // (3) gradual lifetimes + decoder natively too (values / survival oracle; Miri adds the UB monitor). In workers built with
    // debug assertions: an out-of-bounds `get_unchecked` or a misaligned / dangling read aborts there and is pinned to its case
    ctx.set_worker_exe(Some(root.join("target/vdebug/c11")));
    for mode in 0..4u8 {
        for limit in [None, Some(0u32), Some(1)] {
            let map = small_map(mode);
            let hs = gradual_histories(if limit.is_none() { 4 } else { 3 });
            ctx.universe_isolated(&format!("gradual-lifetimes/vdebug/mode{mode}/passed_objects={limit:?}"), hs.len() as u64, 20.0, 2048, |idx, l| {
                l.states(1);
                l.nontrivial();
                // (the reference is computed inside the isolated case: with a defect it may itself be what crashes)
                let reference: Vec<DifficultyAttributes> = api::gradual(limited(limit), &map, mode).expect("native").collect();
                match gradual_run(&map, mode, limit, &reference, &hs[idx as usize]) {
                    Ok(c) => l.checked(c),
                    Err(m) => l.violation("gradual_moved", || format!("mode={mode} passed_objects={limit:?} history={:?}\n{m}", hs[idx as usize])),
                }
            });
        }
    }
    {
        let arrays = key_arrays(5);
        ctx.universe_isolated("sorts-owning-elements/vdebug", arrays.len() as u64, 20.0, 2048, |idx, l| {
            l.states(1);
            l.nontrivial();
            match sorts_owning_case(&arrays[idx as usize]) {
                Ok(c) => l.checked(c),
                Err(m) => l.violation("sorts", || m),
            }
        });
        // the decoder sorts hit objects (which own their slider paths) with it: every order of four lines, two of them sliders
        let lines = ["100,100,1000,1,0,0:0:0:0:", "100,100,500,2,0,L|200:100,1,100", "300,100,2000,2,0,B|350:150|400:100,2,120", "200,200,1500,1,0,0:0:0:0:"];
        let perms: Vec<Vec<usize>> = {
            let mut out = Vec::new();
            for a in 0..4 { for b in 0..4 { for c in 0..4 { for d in 0..4 { if a != b && a != c && a != d && b != c && b != d && c != d { out.push(vec![a, b, c, d]); } } } } }
            out
        };
        ctx.universe_isolated("decoder-unsorted-sliders/vdebug", (perms.len() * 4) as u64, 20.0, 2048, |idx, l| {
            let p = &perms[idx as usize % perms.len()];
            let mode = idx as usize / perms.len();
            let mut t = format!("osu file format v14\n[General]\nMode: {mode}\n[TimingPoints]\n0,500,4,2,0,60,1,0\n[HitObjects]\n");
            for &k in p {
                t.push_str(lines[k]);
                t.push('\n');
            }
            l.states(1);
            l.checked(1);
            l.nontrivial();
            if let Ok(m) = Beatmap::from_bytes(t.as_bytes()) {
                let times: Vec<f64> = m.hit_objects.iter().map(|h| h.start_time).collect();
                if times != [500.0, 1000.0, 1500.0, 2000.0] || m.hit_objects.iter().filter(|h| h.is_slider()).count() != 2 {
                    l.violation("decoder_unsorted", || format!("objects after decoding: {times:?}\n--- text ---\n{t}"));
                }
                drop(m);
            }
        });
    }
    ctx.universe_isolated("difficulty-clock-rate-niche/vdebug", RATE_NICHE.len() as u64, 20.0, 2048, |idx, l| {
        l.states(1);
        l.nontrivial();
        match rate_niche_case(RATE_NICHE[idx as usize]) {
            Ok(c) => l.checked(c),
            Err(m) => l.violation("clock_rate_niche", || m),
        }
    });
    ctx.set_worker_exe(None);
    let texts = path_texts();
    ctx.universe("decoder-paths/native", texts.len() as u64, |idx, l| {
        l.states(1);
        l.checked(1);
        l.nontrivial();
        if let Ok(m) = Beatmap::from_bytes(texts[idx as usize].as_bytes()) {
            let ok = m.hit_objects.iter().any(|h| h.start_time == 2000.0 && h.is_slider()) && m.hit_objects.iter().any(|h| h.start_time == 3000.0);
            if !ok {
                l.violation("decoder_scratch", || format!("the well-formed objects behind a malformed slider line are missing\n--- text ---\n{}", texts[idx as usize]));
            }
        }
    });

    // (4) safety contracts at the call sites: with the hooks on, `StrainsVec::transmute_into_vec` checks "no zero in the list"
    // and `StrainsEntry::new_value` "positive" on every call; the enumeration supplies the inputs (slider-heavy prefixes make
    // zero strains), a broken promise panics inside the case
    {
        let mut opts = vh::uni::UniOpts::new(ctx.pick(4, 5));
        opts.kinds_std = vec![Kind::Circle, Kind::Slider2, Kind::Spinner(600)];
        opts.kinds_mania = vec![Kind::Circle, Kind::Hold(300)];
        opts.gaps = vec![0, 150];
        opts.poss = vec![PosK::Same, PosK::Far];
        opts.mania_cols = vec![0, 2];
        opts.tag = "/unsafe-contracts".into();
        // (in workers built with debug assertions: a use after free or an out-of-bounds access inside a calculation kills the
        // worker, which pins the case, instead of taking the checker down)
        ctx.set_worker_exe(Some(root.join("target/vdebug/c11")));
        for u in opts.build() {
            ctx.universe_isolated(&u.name, u.total, 20.0, 2048, |idx, l| {
                let (spec, map) = u.decode(idx);
                u.sample(l, idx, &spec, "difficulty, strains, gradual walk under no mod, HR+DT and Relax");
                l.states(1);
                if !map.hit_objects.is_empty() {
                    l.nontrivial();
                }
                for d in [Difficulty::new(), Difficulty::new().mods(80u32), Difficulty::new().mods(128u32)] {
                    let r = std::panic::catch_unwind(std::panic::AssertUnwindSafe(|| {
                        let _ = std::hint::black_box((map.check_suspicion().is_ok(), map.bpm(), map.total_break_time()));
                        let a = api::difficulty(&d, &map, u.cfg.dst).expect("convertible");
                        let s = api::strains(&d, &map, u.cfg.dst).expect("convertible");
                        let g = api::gradual(d.clone(), &map, u.cfg.dst).expect("convertible").count();
                        std::hint::black_box((a, s, g));
                    }));
                    l.checked(3);
                    if r.is_err() {
                        l.violation("unsafe_contract_or_panic", || format!("cfg={:?}: a calculation panicked (with the hooks on, a broken safety contract of an unsafe fn panics)\nspec={}\n--- .osu ---\n{}", u.cfg, spec.describe(), spec.text()));
                        return;
                    }
                }
            });
        }
        // objects far outside the playfield, in every mode (positions feed float -> integer conversions: columns, grid cells)
        let xs: [i32; 8] = [-100_000, -600, -1, 0, 511, 512, 600, 100_000];
        let ys: [i32; 3] = [-600, 192, 100_000];
        let total = 4 * (xs.len() * xs.len() * ys.len() * 2) as u64;
        ctx.universe_isolated("off-playfield/unsafe-contracts", total, 20.0, 2048, |idx, l| {
            let mut r = idx;
            let mut take = |n: usize| { let v = (r % n as u64) as usize; r /= n as u64; v };
            let (mode, x1, x2, y, long) = (take(4) as u8, xs[take(8)], xs[take(8)], ys[take(3)], take(2) == 1);
            let second = match (long, mode) {
                (false, _) => format!("{x2},{y},1150,1,0,0:0:0:0:"),
                (true, 3) => format!("{x2},{y},1150,128,0,1450:0:0:0:0:"),
                (true, _) => format!("{x2},{y},1150,2,0,L|{}:{y},1,50", x2 + 50),
            };
            let text = format!("osu file format v14\n[General]\nMode: {mode}\n[Difficulty]\nCircleSize:4\nOverallDifficulty:7\nSliderMultiplier:1.4\n[TimingPoints]\n0,500,4,2,0,60,1,0\n[HitObjects]\n{x1},192,1000,1,0,0:0:0:0:\n{second}\n{x1},{y},1300,1,0,0:0:0:0:\n");
            let map = Beatmap::from_bytes(text.as_bytes()).expect("decodes");
            l.states(1);
            l.nontrivial();
            if l.want_sample() {
                let mut o = J::obj();
                o.set("universe", J::s("off-playfield/unsafe-contracts"));
                o.set("index", J::i(idx));
                o.set("objects", J::s(format!("mode {mode}: x1={x1} x2={x2} y={y} long={long}")));
                l.sample(o);
            }
            for dst in if mode == 0 { vec![0u8, 1, 2, 3] } else { vec![mode] } {
                for d in [Difficulty::new(), Difficulty::new().mods(80u32), Difficulty::new().mods(128u32)] {
                    let r = std::panic::catch_unwind(std::panic::AssertUnwindSafe(|| {
                        let _ = std::hint::black_box((map.check_suspicion().is_ok(), map.bpm(), map.total_break_time()));
                        let a = api::difficulty(&d, &map, dst).expect("convertible");
                        let s = api::strains(&d, &map, dst).expect("convertible");
                        let g = api::gradual(d.clone(), &map, dst).expect("convertible").count();
                        std::hint::black_box((a, s, g));
                    }));
                    l.checked(3);
                    if r.is_err() {
                        l.violation("unsafe_contract_or_panic", || format!("mode {mode} -> {dst}: a calculation panicked (with the hooks on, a broken safety contract of an unsafe fn panics)\n--- .osu ---\n{text}"));
                        return;
                    }
                }
            }
        });
        ctx.set_worker_exe(None);
    }

    // Miri verdicts
    for h in miri_handles {
        match h.join() {
            Ok((part, Ok(out))) => {
                let stdout = String::from_utf8_lossy(&out.stdout).into_owned();
                let stderr = String::from_utf8_lossy(&out.stderr).into_owned();
                let last_step = stdout.lines().filter(|l| l.starts_with("MIRI-STEP")).next_back().unwrap_or("").to_owned();
                let uname = format!("miri/{part}");
                if let Some(ok) = stdout.lines().find(|l| l.starts_with("MIRI-OK")) {
                    let num = |k: &str| ok.split_whitespace().find_map(|w| w.strip_prefix(k)).and_then(|v| v.parse::<u64>().ok()).unwrap_or(0);
                    ctx.add_counts(num("states="), num("checked="), num("states="), num("states="));
                    ctx.note_universe(&uname, UniverseStat { total: num("states="), done: num("states="), capped: false, note: format!("interpreted by Miri: {ok}") });
                } else if stderr.contains("Undefined Behavior") || stdout.contains("MIRI-FAIL") || stderr.contains("panicked at") {
                    let excerpt: String = stderr.lines().filter(|l| !l.trim().is_empty()).skip_while(|l| !l.contains("error")).take(25).collect::<Vec<_>>().join("\n");
                    let fail = stdout.lines().find(|l| l.starts_with("MIRI-FAIL")).unwrap_or("");
                    let class = if stderr.contains("Undefined Behavior") { "miri_undefined_behaviour" } else if !fail.is_empty() { "miri_wrong_value" } else { "miri_panic" };
                    ctx.add_violation(Violation { class: class.into(), universe: uname.clone(), idx: 0, msg: format!("{fail}\nlast case started: {last_step}\n{excerpt}\nreproduce: cd /verif/harness && RUSTFLAGS='--cfg rosu_pp_verif' MIRIFLAGS=-Zmiri-disable-isolation CARGO_TARGET_DIR=/verif/target/miri cargo +nightly miri run --offline --bin c11 -- --miri-body {part}") });
                    ctx.note_universe(&uname, UniverseStat { total: 1, done: 1, capped: false, note: "Miri reported a failure".into() });
                } else {
                    let tail: String = stderr.lines().rev().take(15).collect::<Vec<_>>().into_iter().rev().collect::<Vec<_>>().join("\n");
                    ctx.machinery_error(format!("miri run ({part}) did not complete (exit {:?}); last step: {last_step}\n{tail}", out.status.code()));
                }
            }
            _ => ctx.machinery_error("could not start cargo +nightly miri".into()),
        }
    }
    ctx.finish();
}
