fn main() {
    let mut bad = false;
    for r in [vh::explore::self_test(), vh::baton::self_test()] {
        match r {
            Ok(m) => println!("{m}"),
            Err(e) => {
                eprintln!("SELFTEST FAILED: {e}");
                bad = true;
            }
        }
    }
    std::process::exit(i32::from(bad));
}
