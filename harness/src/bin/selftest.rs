//! Engine self-tests: explorer (seeded bug must be found with known counts), baton scheduler, and the
//! worker isolation (a case that aborts, one that hangs and one that panics must each be pinned).
use vh::Ctx;

fn main() {
    // worker side of the isolation self-test (re-entered through Ctx::universe_isolated)
    let is_worker = std::env::args().any(|a| a == "--worker");
    let mut bad = false;
    if !is_worker {
        for r in [vh::explore::self_test(), vh::baton::self_test()] {
            match r {
                Ok(m) => println!("{m}"),
                Err(e) => {
                    eprintln!("SELFTEST FAILED: {e}");
                    bad = true;
                }
            }
        }
    }
    std::env::set_var("VERIF_NO_EVIDENCE", "1");
    let ctx = Ctx::from_env("SELFTEST");
    // (1.5 s per case, 6 s on the confirmation run: generous enough for a cold start right after a restore)
    ctx.universe_isolated("isolation", 100, 1.5, 512, |idx, l| {
        l.states(1);
        match idx {
            37 => std::process::abort(),
            58 => loop {
                std::hint::spin_loop();
            },
            70 => panic!("seeded panic"),
            81 => {
                // allocation beyond the address-space limit
                let v: Vec<u8> = vec![1; 2 << 30];
                std::hint::black_box(&v);
            }
            _ => {}
        }
    });
    let (classes, evals) = ctx.class_summary();
    let want = [("abort", 2u64), ("hang", 1), ("panic", 1)];
    for (c, n) in want {
        if classes.get(c).copied().unwrap_or(0) != n {
            eprintln!("SELFTEST FAILED: isolation expected {n} x {c}, got {classes:?}");
            bad = true;
        }
    }
    if evals != 100 {
        eprintln!("SELFTEST FAILED: isolation evaluated {evals} of 100 cases");
        bad = true;
    }
    if !bad {
        println!("isolation self-test ok: abort (SIGABRT and allocation failure), hang and panic each pinned to their case; {evals}/100 cases accounted for");
    }
    std::process::exit(i32::from(bad));
}
