//! C13 — accuracy-driven hit results are the closest achievable to the target.
//!
//! E1: every small attribute shape x every miss count x priority x origin x a target grid that contains
//! every achievable accuracy and every midpoint between neighbouring achievable accuracies (+-1e-9);
//! oracle = brute force over all distributions with the same misses.

use rosu_pp::{
    any::{DifficultyAttributes, HitResultPriority, ScoreState},
    catch::CatchDifficultyAttributes,
    mania::ManiaDifficultyAttributes,
    osu::OsuDifficultyAttributes,
    taiko::TaikoDifficultyAttributes,
    Difficulty, Performance,
};
use vh::{json::J, settings::ModSpec, Ctx, Local};

#[derive(Copy, Clone, Debug)]
enum Shape {
    Osu { circles: u32, sliders: u32, spinners: u32, ticks: u32 },
    Taiko { combo: u32 },
    Catch { fruits: u32, droplets: u32, tiny: u32 },
    Mania { objects: u32, holds: u32 },
}

impl Shape {
    fn attrs(&self) -> DifficultyAttributes {
        match *self {
            Shape::Osu { circles, sliders, spinners, ticks } => DifficultyAttributes::Osu(OsuDifficultyAttributes {
                n_circles: circles,
                n_sliders: sliders,
                n_spinners: spinners,
                n_large_ticks: ticks,
                max_combo: circles + spinners + 2 * sliders + ticks,
                stars: 3.0,
                aim: 1.4,
                speed: 1.1,
                great_hit_window: 30.0,
                ok_hit_window: 80.0,
                meh_hit_window: 130.0,
                ar: 9.0,
                ..Default::default()
            }),
            Shape::Taiko { combo } => DifficultyAttributes::Taiko(TaikoDifficultyAttributes { max_combo: combo, stars: 3.0, great_hit_window: 25.0, ok_hit_window: 60.0, ..Default::default() }),
            Shape::Catch { fruits, droplets, tiny } => DifficultyAttributes::Catch(CatchDifficultyAttributes { stars: 3.0, ar: 9.0, n_fruits: fruits, n_droplets: droplets, n_tiny_droplets: tiny, is_convert: false }),
            Shape::Mania { objects, holds } => DifficultyAttributes::Mania(ManiaDifficultyAttributes { stars: 3.0, n_objects: objects, n_hold_notes: holds, max_combo: objects + 2 * holds, is_convert: false }),
        }
    }

    /// number of objects misses are clamped to
    fn objects(&self) -> u32 {
        match *self {
            Shape::Osu { circles, sliders, spinners, .. } => circles + sliders + spinners,
            Shape::Taiko { combo } => combo,
            Shape::Catch { fruits, droplets, .. } => fruits + droplets,
            Shape::Mania { objects, .. } => objects,
        }
    }

    fn has_origins(&self) -> bool {
        matches!(self, Shape::Osu { .. } | Shape::Mania { .. })
    }
}

/// (numerator, denominator) of the accuracy of a state under the documented formula.
fn acc_frac(shape: &Shape, origin: u8, s: &[u32; 6]) -> (u64, u64) {
    // slots: [n300, n100, n50, n_katu, n_geki, misses]
    let [n300, n100, n50, katu, geki, misses] = s.map(u64::from);
    match *shape {
        Shape::Osu { sliders, ticks, .. } => {
            let (sl, tk) = (u64::from(sliders), u64::from(ticks));
            let total = n300 + n100 + n50 + misses;
            let mut num = 300 * n300 + 100 * n100 + 50 * n50;
            let mut den = 300 * total;
            match origin {
                1 => {}
                0 => {
                    // lazer with slider accuracy: all slider ends and large ticks hit (unset -> maximum)
                    num += 150 * sl + 30 * tk;
                    den += 150 * sl + 30 * tk;
                }
                _ => {
                    num += 30 * (sl + tk) + 10 * sl;
                    den += 30 * (sl + tk) + 10 * sl;
                }
            }
            (num, den)
        }
        Shape::Taiko { .. } => (2 * n300 + n100, 2 * (n300 + n100 + misses)),
        Shape::Catch { .. } => (n300 + n100 + n50, n300 + n100 + n50 + katu + misses),
        Shape::Mania { .. } => {
            let pw = if origin == 0 { 61 } else { 60 };
            let total = geki + n300 + katu + n100 + n50 + misses;
            (pw * geki + 60 * n300 + 40 * katu + 20 * n100 + 10 * n50, pw * total)
        }
    }
}

fn frac(nd: (u64, u64)) -> f64 {
    if nd.1 == 0 {
        0.0
    } else {
        nd.0 as f64 / nd.1 as f64
    }
}

/// Every distribution of the non-miss judgements for the given miss count.
fn all_states(shape: &Shape, origin: u8, misses: u32) -> Vec<[u32; 6]> {
    let mut v = Vec::new();
    match *shape {
        Shape::Osu { circles, sliders, spinners, .. } => {
            let r = circles + sliders + spinners - misses;
            for a in 0..=r {
                for b in 0..=r - a {
                    v.push([a, b, r - a - b, 0, 0, misses]);
                }
            }
        }
        Shape::Taiko { combo } => {
            let r = combo - misses;
            for a in 0..=r {
                v.push([a, r - a, 0, 0, 0, misses]);
            }
        }
        Shape::Catch { fruits, droplets, tiny } => {
            let r = fruits + droplets - misses;
            for f in 0..=fruits.min(r) {
                let d = r - f;
                if d > droplets {
                    continue;
                }
                for t in 0..=tiny {
                    v.push([f, d, t, tiny - t, 0, misses]);
                }
            }
        }
        Shape::Mania { objects, holds } => {
            let n = objects + if origin == 0 { holds } else { 0 };
            let r = n - misses;
            for g in 0..=r {
                for a in 0..=r - g {
                    for k in 0..=r - g - a {
                        for b in 0..=r - g - a - k {
                            v.push([a, b, r - g - a - k - b, k, g, misses]);
                        }
                    }
                }
            }
        }
    }
    v
}

fn build(shape: &Shape, passed: Option<u32>, origin_raw: u8, worst: bool, misses: Option<u32>, acc: f64, via_osu_map: Option<&rosu_pp::Beatmap>, combo: Option<u32>) -> Performance<'static> {
    // origin 3 = stable, said through the calculator's own lazer(false) setter instead of through the Difficulty
    // origin 4 = stable, said through the Difficulty, which then goes through its inspection form and back
    let (origin, by_setter, via_inspect) = match origin_raw {
        3 => (1, true, false),
        4 => (1, false, true),
        o => (o, false, false),
    };
    let mut d = Difficulty::new();
    match origin {
        1 if !by_setter => d = d.lazer(false),
        2 => {
            let mode = match shape {
                Shape::Mania { .. } => rosu_pp::model::mode::GameMode::Mania,
                _ => rosu_pp::model::mode::GameMode::Osu,
            };
            d = d.mods(ModSpec::Classic(None).build(mode));
        }
        _ => {}
    }
    if let Some(k) = passed {
        d = d.passed_objects(k);
    }
    if via_inspect {
        d = d.inspect().into_difficulty();
    }
    // map-backed variant: the osu! calculator gets accuracy (and misses) first and is switched to the shape's mode afterwards
    if let Some(m) = via_osu_map {
        let mut p = Performance::new(m.clone()).difficulty(d).accuracy(acc);
        if by_setter {
            p = p.lazer(false);
        }
        if let Some(k) = misses {
            p = p.misses(k);
        }
        if worst {
            p = p.hitresult_priority(HitResultPriority::WorstCase);
        }
        let mode = match shape {
            Shape::Catch { .. } => rosu_pp::model::mode::GameMode::Catch,
            Shape::Taiko { .. } => rosu_pp::model::mode::GameMode::Taiko,
            Shape::Mania { .. } => rosu_pp::model::mode::GameMode::Mania,
            Shape::Osu { .. } => rosu_pp::model::mode::GameMode::Osu,
        };
        return p.try_mode(mode).ok().expect("un-converted osu! map");
    }
    let mut p = Performance::new(shape.attrs()).difficulty(d).accuracy(acc);
    if by_setter {
        p = p.lazer(false);
    }
    if let Some(m) = misses {
        p = p.misses(m);
    }
    // a reached combo is not a hit result: the closest distribution does not depend on it
    if let Some(c) = combo {
        p = p.combo(c);
    }
    if worst {
        p = p.hitresult_priority(HitResultPriority::WorstCase);
    }
    p
}

fn slots(s: &ScoreState) -> [u32; 6] {
    [s.n300, s.n100, s.n50, s.n_katu, s.n_geki, s.misses]
}

fn shapes(ctx: &Ctx) -> Vec<Shape> {
    let max_obj = ctx.pick(7, 12);
    let mut v = Vec::new();
    for circles in 0..=max_obj {
        for sliders in 0..=ctx.pick(2, 3) {
            for spinners in 0..=1 {
                if circles + sliders + spinners > max_obj {
                    continue;
                }
                for ticks in 0..=2 {
                    if sliders == 0 && ticks > 0 {
                        continue;
                    }
                    v.push(Shape::Osu { circles, sliders, spinners, ticks });
                }
            }
        }
    }
    for combo in 0..=max_obj + 4 {
        v.push(Shape::Taiko { combo });
    }
    for fruits in 0..=ctx.pick(5, 9) {
        for droplets in 0..=2 {
            for tiny in 0..=ctx.pick(4, 9) {
                v.push(Shape::Catch { fruits, droplets, tiny });
            }
        }
    }
    for objects in 0..=ctx.pick(7, 12) {
        for holds in 0..=ctx.pick(2, 3).min(objects) {
            v.push(Shape::Mania { objects, holds });
        }
    }
    v
}

fn main() {
    let ctx = Ctx::from_env("C13");
    ctx.rule("case = (attribute shape with <= 5 (quick) / 8 (thorough) objects, miss count incl. unset and beyond the object count, origin lazer / stable (through the Difficulty, through the calculator's own lazer(false) setter, or through a Difficulty that went through inspect() and into_difficulty()) / classic where the mode distinguishes them, priority; for taiko also whole-map attributes of 2/3/5/8/12 hits used with passed_objects(k), k in {0,1,n/2,n-1}, the distributions then ranging over k hits); per case the targets are a 0.5% grid united with every achievable accuracy and every midpoint between neighbouring achievable accuracies +-1e-9; oracle = misses as given (clamped to the objects) and |target - accuracy(generated)| <= min over all distributions with the same misses + 1e-12; non-trivial = more than one achievable accuracy");
    ctx.assume("accuracy is the documented formula per mode (osu! slider parts at their maximum because they are not specified); ties are not violations");

    // (attribute shape, passed_objects): for taiko — where the judgements of a partial play are simply the first k hits — the
    // attributes of the whole map are also used with passed_objects(k), k < max combo; `shape` is then the shape the
    // distributions range over and `full` the attributes handed to the calculator
    let mut entries: Vec<(Shape, Shape, Option<u32>, Option<rosu_pp::Beatmap>)> = shapes(&ctx).into_iter().map(|s| (s, s, None, None)).collect();
    for combo in [2u32, 3, 5, 8, 12] {
        let mut ks = vec![0, 1, combo / 2, combo - 1];
        ks.sort_unstable();
        ks.dedup();
        for k in ks {
            entries.push((Shape::Taiko { combo: k }, Shape::Taiko { combo }, Some(k), None));
        }
    }
    // real osu! maps whose catch / taiko converts are reached through `accuracy(..).try_mode(..)`: the shape is what the
    // convert's difficulty attributes say
    {
        use vh::gen::{DiffPreset, Kind, MapSpec, Obj, PosK};
        let o = |kind, gap| Obj { kind, gap, pos: PosK::Far, sound: 0, col: 0 };
        let lists: Vec<Vec<Obj>> = vec![
            vec![o(Kind::Circle, 0), o(Kind::Slider2, 300)],
            vec![o(Kind::SliderLong, 0), o(Kind::Circle, 1500), o(Kind::Circle, 300)],
            vec![o(Kind::Slider5, 0), o(Kind::Circle, 3000)],
            vec![o(Kind::Circle, 0), o(Kind::Circle, 200), o(Kind::Slider1, 200), o(Kind::Spinner(600), 400)],
        ];
        for objs in lists {
            for preset in [DiffPreset::D0, DiffPreset::D3] {
                let map = MapSpec { diff: preset, ..MapSpec::new(0, objs.clone()) }.decode();
                if let Ok(rosu_pp::any::DifficultyAttributes::Catch(a)) = vh::api::difficulty(&Difficulty::new(), &map, 2) {
                    let sh = Shape::Catch { fruits: a.n_fruits, droplets: a.n_droplets, tiny: a.n_tiny_droplets };
                    if a.n_fruits + a.n_droplets <= 12 && a.n_tiny_droplets <= 12 {
                        entries.push((sh, sh, None, Some(map.clone())));
                    }
                }
                if let Ok(rosu_pp::any::DifficultyAttributes::Taiko(a)) = vh::api::difficulty(&Difficulty::new(), &map, 1) {
                    let sh = Shape::Taiko { combo: a.max_combo };
                    if a.max_combo <= 16 {
                        entries.push((sh, sh, None, Some(map.clone())));
                    }
                }
            }
        }
    }
    for (si, (shape, full, passed, via_map)) in entries.iter().enumerate() {
        let passed = *passed;
        let n = shape.objects();
        let origins: u64 = if shape.has_origins() { 5 } else { 1 };
        let prios: u64 = if matches!(shape, Shape::Catch { .. }) { 1 } else { 2 };
        // miss options: unset, 0..=n, n+2
        let miss_opts = u64::from(n) + 3;
        // a combo given next to the accuracy (catch and taiko: modes whose generation looks at counts that a combo could be
        // confused with): unset, 0, 1, half the objects
        let combos: Vec<Option<u32>> = if matches!(shape, Shape::Catch { .. } | Shape::Taiko { .. }) && via_map.is_none() { vec![None, Some(0), Some(1), Some(n / 2)] } else { vec![None] };
        let total = origins * prios * miss_opts * combos.len() as u64;
        let name = if via_map.is_some() { format!("shape{si}/{shape:?}/osu-map-then-try_mode").replace(' ', "") } else if passed.is_some() { format!("shape{si}/{full:?}/passed_objects={}", n).replace(' ', "") } else { format!("shape{si}/{shape:?}").replace(' ', "") };
        ctx.universe(&name, total, |idx, l: &mut Local<'_>| {
            let combo = combos[(idx % combos.len() as u64) as usize];
            let idx = idx / combos.len() as u64;
            let origin_raw = (idx % origins) as u8;
            let origin = if origin_raw >= 3 { 1 } else { origin_raw };
            let r = idx / origins;
            let worst = r % prios == 1;
            let mi = r / prios;
            let misses_arg: Option<u32> = if mi == 0 { None } else if mi <= u64::from(n) + 1 { Some((mi - 1) as u32) } else { Some(n + 2) };
            let misses = misses_arg.unwrap_or(0).min(n);

            let states = all_states(shape, origin, misses);
            let mut accs: Vec<f64> = states.iter().map(|s| frac(acc_frac(shape, origin, s))).collect();
            accs.sort_by(f64::total_cmp);
            accs.dedup();
            if accs.len() > 1 {
                l.nontrivial();
            }
            let mut targets: Vec<f64> = (0..=200).map(|i| f64::from(i) * 0.5).collect();
            for w in accs.windows(2) {
                let mid = (w[0] + w[1]) / 2.0;
                targets.extend([mid * 100.0 - 1e-7, mid * 100.0, mid * 100.0 + 1e-7]);
            }
            for a in &accs {
                targets.push(a * 100.0);
            }
            if l.want_sample() && si % 11 == 0 {
                let mut o = J::obj();
                o.set("universe", J::s(name.clone()));
                o.set("index", J::i(idx));
                o.set("origin", J::i(origin));
                o.set("worst_case", J::Bool(worst));
                o.set("misses", J::s(format!("{misses_arg:?}")));
                o.set("targets", J::i(targets.len() as u64));
                o.set("achievable_accuracies", J::i(accs.len() as u64));
                l.sample(o);
            }
            l.states(states.len() as u64);
            for t in targets {
                let t = t.clamp(0.0, 100.0);
                let g = build(full, passed, origin_raw, worst, misses_arg, t, via_map.as_ref(), combo).generate_state();
                let gs = slots(&g);
                l.checked(1);
                if g.misses != misses {
                    l.violation("misses", || format!("attributes={full:?} passed_objects={passed:?} combo={combo:?} shape={shape:?} origin={origin_raw} worst={worst} misses={misses_arg:?} target={t}\ngenerated state has {} misses, expected {misses}: {g:?}", g.misses));
                    return;
                }
                let ga = frac(acc_frac(shape, origin, &gs));
                let target = t / 100.0;
                let gd = (target - ga).abs();
                // best achievable distance (binary search in the sorted list)
                let pos = accs.partition_point(|x| *x < target);
                let mut best = f64::INFINITY;
                if pos < accs.len() {
                    best = best.min((accs[pos] - target).abs());
                }
                if pos > 0 {
                    best = best.min((accs[pos - 1] - target).abs());
                }
                if gd > best + 1e-12 {
                    let mode = format!("{shape:?}");
                    let mode = mode.split(' ').next().unwrap_or("").to_lowercase();
                    l.violation(&format!("not_closest_{mode}"), || {
                        format!(
                            "attributes={full:?} passed_objects={passed:?} combo={combo:?} shape={shape:?} origin={origin_raw} (0 lazer, 1 stable, 2 classic, 3 stable through the lazer(false) setter, 4 stable through a Difficulty that went through inspect() and into_difficulty()) worst={worst} misses={misses_arg:?} target accuracy={t}%\ngenerated {g:?}\n accuracy {ga} at distance {gd}; a distribution with the same misses reaches distance {best}"
                        )
                    });
                    return;
                }
            }
        });
    }
    ctx.finish();
}
