//! C05 — no panic, abort or hang on any decodable map that is not suspicious.
//!
//! Deviation-bounded corner exploration (adversarial domain, release workers) and the grammar
//! universe (realistic domain, workers built with debug assertions and overflow checks); every
//! case runs the whole public battery inside a worker subprocess with a deadline and an
//! address-space limit.

use std::path::PathBuf;

use rosu_pp::{Beatmap, Difficulty, Performance};
use vh::{
    battery,
    gen::{self, Kind, PosK},
    json::J,
    settings::{self, ModSpec},
    uni::UniOpts,
    Ctx, Local,
};

struct Slot {
    name: &'static str,
    default: &'static str,
    corners: &'static [&'static str],
}

// (2^24 and 2^30 are where an f32 time stops resolving 1 ms / 64 ms steps: a value on the step and one 500 ms below it, so that
// an object of ordinary length straddles the step)
const TIMES: &[&str] = &["0", "-1", "1", "16777216", "16776716", "1000000000", "1073741324", "2000000000", "2147483647", "-2147483648"];
const COORD: &[&str] = &["0", "512", "10000", "-10000", "131072", "-131072"];
const ATTR: &[&str] = &["0", "10"];

const SLOTS: &[Slot] = &[
    Slot { name: "ver", default: "14", corners: &["3", "5", "7", "128"] },
    Slot { name: "stack", default: "0.7", corners: &["0", "1", "-1", "100"] },
    Slot { name: "hp", default: "5", corners: ATTR },
    Slot { name: "cs", default: "4", corners: &["0", "10", "18", "1"] },
    Slot { name: "od", default: "7", corners: ATTR },
    Slot { name: "ar", default: "8", corners: ATTR },
    Slot { name: "sm", default: "1.4", corners: &["0.4", "3.6"] },
    Slot { name: "tr", default: "1", corners: &["0.5", "8"] },
    Slot { name: "tp_t", default: "0", corners: &["-1000", "1000000", "2000000000"] },
    Slot { name: "bl", default: "500", corners: &["6", "60000", "0.0001", "1000000000", "5.5"] },
    Slot { name: "ip_t", default: "1000", corners: &["0", "-1", "2000000000"] },
    Slot { name: "ibl", default: "-50", corners: &["-0.001", "-100", "-10000", "NaN", "-1000000000"] },
    Slot { name: "t1", default: "1000", corners: TIMES },
    Slot { name: "t2", default: "1500", corners: TIMES },
    Slot { name: "t3", default: "2500", corners: TIMES },
    Slot { name: "t4", default: "3500", corners: TIMES },
    Slot { name: "t5", default: "4500", corners: TIMES },
    Slot { name: "x1", default: "100", corners: COORD },
    Slot { name: "y1", default: "100", corners: COORD },
    Slot { name: "x2", default: "200", corners: COORD },
    Slot { name: "y2", default: "150", corners: COORD },
    Slot { name: "cx", default: "300", corners: COORD },
    Slot { name: "cy", default: "200", corners: COORD },
    Slot { name: "curve", default: "B", corners: &["L", "P", "C"] },
    Slot { name: "rep", default: "2", corners: &["0", "1", "100"] },
    Slot { name: "len", default: "140", corners: &["0", "0.001", "100", "20000"] },
    // spinner / hold lengths are relative to the (possibly deviated) start time: end = t + len
    Slot { name: "len3", default: "700", corners: &["0", "1", "60", "100", "1000000", "-5"] },
    Slot { name: "len4", default: "400", corners: &["0", "1", "60", "100", "1000000", "-5"] },
    Slot { name: "x4", default: "300", corners: &["0", "511", "512", "-1"] },
    Slot { name: "ty1", default: "1", corners: &["5", "69"] },
    Slot { name: "hs", default: "0", corners: &["2", "4", "8", "14"] },
];

const TEMPLATES: &[(&str, &str)] = &[
    (
        "full",
        "osu file format v{ver}\n\n[General]\nStackLeniency: {stack}\nMode: {mode}\n\n[Difficulty]\nHPDrainRate:{hp}\nCircleSize:{cs}\nOverallDifficulty:{od}\nApproachRate:{ar}\nSliderMultiplier:{sm}\nSliderTickRate:{tr}\n\n[TimingPoints]\n{tp_t},{bl},4,2,0,60,1,0\n{ip_t},{ibl},4,2,0,60,0,0\n\n[HitObjects]\n{x1},{y1},{t1},{ty1},{hs},0:0:0:0:\n{x2},{y2},{t2},2,{hs},{curve}|250:150|{cx}:{cy},{rep},{len}\n256,192,{t3},12,0,{len3}\n{x4},192,{t4},128,0,{len4}:0:0:0:0:\n{x1},{y2},{t5},1,{hs}\n",
    ),
    (
        "spinner-only",
        "osu file format v{ver}\n\n[General]\nMode: {mode}\n\n[Difficulty]\nHPDrainRate:{hp}\nCircleSize:{cs}\nOverallDifficulty:{od}\nApproachRate:{ar}\nSliderMultiplier:{sm}\nSliderTickRate:{tr}\n\n[TimingPoints]\n{tp_t},{bl},4,2,0,60,1,0\n\n[HitObjects]\n256,192,{t3},12,{hs},{len3}\n",
    ),
    (
        "slider-only",
        "osu file format v{ver}\n\n[General]\nStackLeniency: {stack}\nMode: {mode}\n\n[Difficulty]\nHPDrainRate:{hp}\nCircleSize:{cs}\nOverallDifficulty:{od}\nApproachRate:{ar}\nSliderMultiplier:{sm}\nSliderTickRate:{tr}\n\n[TimingPoints]\n{tp_t},{bl},4,2,0,60,1,0\n{ip_t},{ibl},4,2,0,60,0,0\n\n[HitObjects]\n{x2},{y2},{t2},2,{hs},{curve}|250:150|{cx}:{cy},{rep},{len}\n",
    ),
    (
        "hold-and-circle",
        "osu file format v{ver}\n\n[General]\nMode: {mode}\n\n[Difficulty]\nHPDrainRate:{hp}\nCircleSize:{cs}\nOverallDifficulty:{od}\nApproachRate:{ar}\nSliderMultiplier:{sm}\nSliderTickRate:{tr}\n\n[TimingPoints]\n{tp_t},{bl},4,2,0,60,1,0\n\n[HitObjects]\n{x4},192,{t4},128,{hs},{len4}:0:0:0:0:\n{x1},{y1},{t5},1,0\n",
    ),
];

fn render(tpl: &str, mode: u8, devs: &[(usize, usize)]) -> String {
    let mut s = tpl.replace("{mode}", &mode.to_string());
    let value_of = |name: &str| -> &'static str {
        let si = SLOTS.iter().position(|x| x.name == name).expect("slot");
        devs.iter().find(|(d, _)| *d == si).map_or(SLOTS[si].default, |(_, c)| SLOTS[si].corners[*c])
    };
    for slot in SLOTS {
        let val = value_of(slot.name);
        let rendered = match slot.name {
            "len3" | "len4" => {
                let t: i64 = value_of(if slot.name == "len3" { "t3" } else { "t4" }).parse().unwrap_or(0);
                (t + val.parse::<i64>().unwrap_or(0)).to_string()
            }
            _ => val.to_owned(),
        };
        s = s.replace(&format!("{{{}}}", slot.name), &rendered);
    }
    s
}

/// All deviation sets of size <= depth over the slots a template uses: (slot, corner) lists.
fn deviations(tpl: &str, depth: usize) -> Vec<Vec<(usize, usize)>> {
    let used: Vec<usize> = SLOTS.iter().enumerate().filter(|(_, s)| tpl.contains(&format!("{{{}}}", s.name))).map(|(i, _)| i).collect();
    let mut out: Vec<Vec<(usize, usize)>> = vec![vec![]];
    let mut frontier: Vec<Vec<(usize, usize)>> = vec![vec![]];
    for _ in 0..depth {
        let mut next = Vec::new();
        for set in &frontier {
            let start = set.last().map_or(0, |(s, _)| used.iter().position(|u| u == s).unwrap() + 1);
            for &si in &used[start..] {
                for c in 0..SLOTS[si].corners.len() {
                    let mut n = set.clone();
                    n.push((si, c));
                    next.push(n);
                }
            }
        }
        out.extend(next.iter().cloned());
        frontier = next;
    }
    out
}

fn key_mods(rich: bool) -> Vec<ModSpec> {
    if !rich {
        return vec![ModSpec::Bits(settings::KEY1), ModSpec::Bits(settings::KEY4), ModSpec::TenKeys, ModSpec::Invert];
    }
    let mut v: Vec<ModSpec> = settings::KEY_BITS.iter().map(|b| ModSpec::Bits(*b)).collect();
    v.push(ModSpec::TenKeys);
    v.push(ModSpec::Invert);
    v.push(ModSpec::HoldOff);
    v.push(ModSpec::Random(Some(5.0)));
    v
}

fn run_case(l: &mut Local<'_>, text: &str, rich: bool) {
    let Ok(map) = Beatmap::from_bytes(text.as_bytes()) else { return };
    if !battery::in_domain(&map) {
        return;
    }
    l.nontrivial();
    l.states(1);
    let setts = battery::settings_for(&map, rich);
    let d = battery::run(&map, &setts, &key_mods(rich), 100_000, &|| l.heartbeat(), false);
    std::hint::black_box(d);
    l.checked(1);
}

fn main() {
    let ctx = Ctx::from_env_caps("C05", 52, 1500);
    ctx.rule("adversarial universes: 4 templates (full 5-object map, single spinner, single slider, hold+circle) x 4 modes; every set of <= 2 (quick) / <= 3 (thorough, reduced to the full template) deviations from the defaults, each deviation = one corner value of one numeric slot (times up to +-2^31 incl. 500 ms below 2^24 and 2^30, coordinates up to +-131072, slider length 0..20000, repeats 0..100, spinner/hold lengths -5..10^6 relative to the (deviated) start, beat lengths at the clamps / negative / NaN, difficulty settings at their clamps, versions 3/5/7/128, curve types); a case is in the domain iff it decodes, check_suspicion() is Ok and sliders have <= 100 repeats and <= 20000 px. realistic universes: grammar maps (times within [0, 3h]), every taiko centre / rim sequence of <= 12 (thorough 15) evenly spaced hits (native and converted), executed by workers built with debug assertions and overflow checks. Subject = the whole public battery (bpm, 3 conversion entry points, difficulty, strains, gradual difficulty by next and nth, gradual performance, performance with counts up to 3x the object count, attribute builder) for every reachable mode x settings menu (rates 0.01 and 100, overrides +-20, key mods 1K-10K). Oracle = worker exit status, catch_unwind, 3 s and 1 GiB per case; non-trivial = case is in the domain");

    let rich = !ctx.quick();
    // order: cheapest universes first, so that the internal wall cap can only ever cut the largest one short
    // dense, longer maps: a <= 2 object prefix (incl. a 5-span slider and gaps measured from the previous object's end)
    // followed by a stream of circles, under every key mod. Pattern generators keep state (previous pattern, RNG seeded
    // from the difficulty settings) along the map, which small maps never exercise; positions and difficulty presets vary
    // because the generators' random rolls depend on them.
    {
        use vh::gen::{Alphabet, DiffPreset, MapSpec, END_REL};
        let kinds = [Kind::Circle, Kind::Slider2, Kind::Slider5, Kind::Spinner(600)];
        let alpha = Alphabet::product(&kinds, &[150, END_REL + 110, END_REL + 400], &[PosK::Far], &[0], &[0]);
        let n_pref = alpha.count_upto(2);
        let streams: Vec<(u32, u32)> = if rich { vec![(96, 62), (48, 125), (24, 250), (150, 40)] } else { vec![(96, 62), (48, 125)] };
        let presets = [DiffPreset::D0, DiffPreset::D4, DiffPreset::D5, DiffPreset::D6, DiffPreset::D7, DiffPreset::D8, DiffPreset::D1, DiffPreset::D2];
        let jitters: u64 = if rich { 12 } else { 3 };
        // stream styles: plain / with finish + clap sounds / overlapping the prefix object in time
        let styles: Vec<u8> = if rich { vec![0, 1, 2, 3, 6] } else { vec![0, 2, 1] };
        let total = n_pref * streams.len() as u64 * presets.len() as u64 * jitters * styles.len() as u64;
        let name = format!("dense/osu/prefix<=2+stream/{}cases", total);
        let all_keys: Vec<ModSpec> = key_mods(true);
        let body = |idx: u64, l: &mut Local<'_>| {
            let pi = idx % n_pref;
            let mut r = idx / n_pref;
            let stream = streams[(r % streams.len() as u64) as usize];
            r /= streams.len() as u64;
            let diff = presets[(r % presets.len() as u64) as usize];
            r /= presets.len() as u64;
            let jitter = (r % jitters) as u8;
            let stream_style = styles[(r / jitters) as usize];
            let spec = MapSpec { diff, stream, jitter, stream_style, ..MapSpec::new(0, alpha.seq(pi, 2)) };
            if l.want_sample() {
                let mut o = J::obj();
                o.set("universe", J::s(l.universe));
                o.set("index", J::i(idx));
                o.set("map_spec", J::s(spec.describe()));
                l.sample(o);
            }
            let text = spec.text();
            let Ok(map) = Beatmap::from_bytes(text.as_bytes()) else { return };
            if !battery::in_domain(&map) {
                return;
            }
            l.nontrivial();
            l.states(1);
            let d = battery::run_conversions(&map, &all_keys, &|| l.heartbeat());
            std::hint::black_box(d);
            l.checked(1);
            if l.ctx.replay.is_some() {
                println!("--- case text ---\n{text}");
            }
        };
        ctx.universe_isolated(&name, total, 5.0, 1024, body);
    }

    // every centre / rim sequence of up to 12 (thorough 15) hits at an even pace, native taiko and osu! -> taiko: the colour
    // preprocessor groups hits into mono runs, runs into alternating patterns and patterns into repeating chains, and the
    // ends of the map are where its look-ahead runs out
    {
        use vh::gen::{MapSpec, Obj};
        let max_len: u32 = if rich { 15 } else { 12 };
        let per_mode: u64 = (1..=max_len).map(|k| 1u64 << k).sum();
        let name = format!("taiko-colour-sequences/len<={max_len}/{}cases", per_mode * 2);
        let body = |idx: u64, l: &mut Local<'_>| {
            let (mode, mut r) = (if idx < per_mode { 1u8 } else { 0 }, idx % per_mode);
            let mut len = 1u32;
            while r >= 1u64 << len {
                r -= 1u64 << len;
                len += 1;
            }
            let objs: Vec<Obj> = (0..len).map(|i| Obj { kind: Kind::Circle, gap: if i == 0 { 0 } else { 150 }, pos: PosK::Far, sound: if r >> i & 1 == 1 { 8 } else { 0 }, col: 0 }).collect();
            let spec = MapSpec::new(mode, objs);
            if l.want_sample() {
                let mut o = J::obj();
                o.set("universe", J::s(l.universe));
                o.set("index", J::i(idx));
                o.set("colours", J::s(format!("mode {mode}: {}", (0..len).map(|i| if r >> i & 1 == 1 { 'k' } else { 'd' }).collect::<String>())));
                l.sample(o);
            }
            let map = spec.decode();
            l.nontrivial();
            l.states(1);
            let d = Difficulty::new();
            let a = vh::api::difficulty(&d, &map, 1).expect("taiko reachable");
            let st = vh::api::strains(&d, &map, 1).expect("taiko reachable");
            let n = vh::api::gradual(d.clone(), &map, 1).expect("taiko reachable").count();
            let p = Performance::new(a.clone()).accuracy(93.0).calculate();
            std::hint::black_box((a, st, n, p));
            l.checked(4);
            if l.ctx.replay.is_some() {
                println!("--- case text ---\n{}", spec.text());
            }
        };
        ctx.universe_isolated(&name, per_mode * 2, 5.0, 1024, body);
    }

    // a circle carrying a finish / clap / whistle directly followed by a repeat slider (span lengths from 48 to 440 ms over the
    // presets), then a short stream: the pattern generators branch on the previous pattern, the hit sound and the span length
    {
        use vh::gen::{DiffPreset, MapSpec, Obj};
        let sliders = [Kind::Slider2, Kind::Buzz, Kind::Slider5, Kind::Slider1];
        let sounds = [4u8, 8, 2, 0];
        let gaps = [110u32, 150, 300];
        let presets = [DiffPreset::D0, DiffPreset::D2, DiffPreset::D7, DiffPreset::D5, DiffPreset::D1, DiffPreset::D8];
        let total = (sliders.len() * sounds.len() * gaps.len() * presets.len() * 2) as u64;
        let all_keys: Vec<ModSpec> = key_mods(true);
        ctx.universe_isolated(&format!("dense/osu/sound-circle+repeat-slider+stream/{total}cases"), total, 5.0, 1024, |idx, l| {
            let mut r = idx as usize;
            let sl = sliders[r % sliders.len()];
            r /= sliders.len();
            let sound = sounds[r % sounds.len()];
            r /= sounds.len();
            let gap = gaps[r % gaps.len()];
            r /= gaps.len();
            let diff = presets[r % presets.len()];
            let lead = r / presets.len() == 1;
            let o = |kind, gap, pos, sound| Obj { kind, gap, pos, sound, col: 0 };
            let mut objs = Vec::new();
            if lead {
                objs.push(o(Kind::Circle, 0, PosK::Far, 0));
            }
            objs.push(o(Kind::Circle, if lead { 200 } else { 0 }, PosK::Far, sound));
            objs.push(o(sl, gap, PosK::Far, 0));
            let spec = MapSpec { diff, stream: (16, 125), ..MapSpec::new(0, objs) };
            if l.want_sample() {
                let mut o = J::obj();
                o.set("universe", J::s(l.universe));
                o.set("index", J::i(idx));
                o.set("map_spec", J::s(spec.describe()));
                l.sample(o);
            }
            let map = spec.decode();
            if !battery::in_domain(&map) {
                return;
            }
            l.nontrivial();
            l.states(1);
            let d = battery::run_conversions(&map, &all_keys, &|| l.heartbeat());
            std::hint::black_box(d);
            l.checked(1);
        });
    }

    // windows of 64 consecutive objects of the four fixtures (step 32) through the conversion battery, all key mods
    {
        let mut cases: Vec<(&'static str, usize)> = Vec::new();
        for (path, _) in gen::fixture_paths() {
            let n_obj = Beatmap::from_path(path).map(|m| m.hit_objects.len()).unwrap_or(0);
            cases.extend((0..n_obj).step_by(32).map(|s| (path, s)));
        }
        let all_keys: Vec<ModSpec> = key_mods(true);
        ctx.universe_isolated("fixture-windows/4-fixtures/64-objects-step-32", cases.len() as u64, 5.0, 1024, |idx, l| {
            let (path, start) = cases[idx as usize];
            let Some(map) = gen::fixture_window(path, start, 64) else { return };
            if !battery::in_domain(&map) {
                return;
            }
            l.nontrivial();
            l.states(1);
            let d = battery::run_conversions(&map, &all_keys, &|| l.heartbeat());
            std::hint::black_box(d);
            l.checked(1);
        });
    }

    // realistic domain under debug assertions + overflow checks
    let vdebug = PathBuf::from(std::env::var("VERIF_ROOT").unwrap_or_else(|_| "/verif".into())).join("target/vdebug/c05");
    ctx.set_worker_exe(Some(vdebug));
    let n_max = ctx.pick(2, 3);
    let mut opts = UniOpts::new(n_max);
    opts.cfgs = (0..4).map(|m| gen::ModeCfg { src: m, dst: m }).collect();
    opts.kinds_std = vec![Kind::Circle, Kind::Slider2, Kind::SliderLong, Kind::Spinner(600)];
    opts.gaps = vec![0, 150, 7000];
    opts.poss = vec![PosK::Same, PosK::Far];
    let mut unis = Vec::new();
    for first_start in [0, 10_000_000] {
        opts.first_start = first_start;
        opts.tag = format!("/start{first_start}");
        unis.extend(opts.build());
    }
    let mut offsets = Vec::new();
    let mut total = 0u64;
    for u in &unis {
        offsets.push(total);
        total += u.total;
    }
    let name = format!("realistic-vdebug/grammar/4-modes/N<={n_max}/start-0-and-10^7");
    ctx.universe_isolated(&name, total, 5.0, 1024, |idx, l| {
        let ui = offsets.partition_point(|o| *o <= idx) - 1;
        let spec = unis[ui].spec(idx - offsets[ui]);
        if l.want_sample() {
            let mut o = J::obj();
            o.set("universe", J::s(name.clone()));
            o.set("index", J::i(idx));
            o.set("map_spec", J::s(spec.describe()));
            o.set("worker", J::s("vdebug build: debug assertions + overflow checks"));
            l.sample(o);
        }
        run_case(l, &spec.text(), false);
    });
    // chords and near-chords: every gap sequence of 5 (thorough 6) circles over {0, 1, 150, 400} ms, native in all four
    // modes — runs of objects sharing one timestamp (interval 0: ratios 0/0, x/0) anywhere in the map, same worker build
    {
        let gaps = [0u32, 1, 150, 400];
        let n = ctx.pick(4u32, 5);
        let per = (gaps.len() as u64).pow(n);
        let name = format!("realistic-vdebug/simultaneous/4-modes/{}-circles", n + 1);
        ctx.universe_isolated(&name, per * 4, 5.0, 1024, |idx, l| {
            let mode = (idx / per) as u8;
            let mut r = idx % per;
            let mut objs = vec![gen::Obj { kind: Kind::Circle, gap: 0, pos: PosK::Far, sound: 0, col: 0 }];
            for i in 0..n {
                objs.push(gen::Obj { kind: Kind::Circle, gap: gaps[(r % 4) as usize], pos: if i % 2 == 0 { PosK::Far } else { PosK::Same }, sound: if i % 3 == 0 { 8 } else { 0 }, col: (i % 3) as u8 });
                r /= 4;
            }
            let spec = gen::MapSpec::new(mode, objs);
            if l.want_sample() {
                let mut o = J::obj();
                o.set("universe", J::s(name.clone()));
                o.set("index", J::i(idx));
                o.set("map_spec", J::s(spec.describe()));
                l.sample(o);
            }
            run_case(l, &spec.text(), false);
        });
    }
    ctx.set_worker_exe(None);
    // one flat universe over (template, mode, deviation set) so that the few expensive cases overlap with the rest
    let mut parts: Vec<(&str, &str, u8, Vec<Vec<(usize, usize)>>)> = Vec::new();
    for (tname, tpl) in TEMPLATES {
        for mode in 0..4u8 {
            let depth = if rich && *tname == "full" { 3 } else { 2 };
            let devs = deviations(tpl, depth);
            // thorough depth 3 only over a reduced corner alphabet: first two corners of each slot
            let devs: Vec<_> = devs.into_iter().filter(|d| d.len() < 3 || d.iter().all(|(_, c)| *c < 2)).collect();
            // corners that stretch the timeline beyond 10^7 ms make every call cost milliseconds to tens of ms: in the
            // quick tier they are explored as single deviations only ...
            let heavy = |d: &(usize, usize)| SLOTS[d.0].corners[d.1].parse::<f64>().is_ok_and(|v| v.abs() >= 1e7) && SLOTS[d.0].name != "bl" && SLOTS[d.0].name != "ibl";
            let quick = ctx.quick();
            // ... and only on the osu! templates (mode 0 reaches all four target modes through conversion)
            let coupled = |d: &Vec<(usize, usize)>| d.len() == 2 && {
                let names = (SLOTS[d[0].0].name, SLOTS[d[1].0].name);
                matches!(names, ("t3", "len3") | ("t4", "len4"))
            };
            // (a start time and the length of the same spinner / hold note are explored together in every tier)
            let devs: Vec<_> = devs.into_iter().filter(|d| !quick || !d.iter().any(heavy) || ((d.len() < 2 || coupled(d)) && (mode == 0 || mode == 2))).collect();
            parts.push((tname, tpl, mode, devs));
        }
    }
    let mut offsets = Vec::new();
    let mut total = 0u64;
    for p in &parts {
        offsets.push(total);
        total += p.3.len() as u64;
    }
    let name = format!("adversarial/4-templates-x-4-modes/dev<={}", if rich { 3 } else { 2 });
    ctx.universe_isolated(&name, total, 3.0, 1024, |idx, l| {
        let pi = offsets.partition_point(|o| *o <= idx) - 1;
        let (tname, tpl, mode, devs) = &parts[pi];
        let dv = &devs[(idx - offsets[pi]) as usize];
        let text = render(tpl, *mode, dv);
        if l.want_sample() || idx % 9973 == 0 {
            let mut o = J::obj();
            o.set("universe", J::s(name.clone()));
            o.set("index", J::i(idx));
            o.set("template", J::s(*tname));
            o.set("mode", J::i(*mode));
            o.set("deviations", J::s(format!("{:?}", dv.iter().map(|(s, c)| format!("{}={}", SLOTS[*s].name, SLOTS[*s].corners[*c])).collect::<Vec<_>>())));
            l.sample(o);
        }
        run_case(l, &text, rich);
        // make the failing text visible in replays
        if l.ctx.replay.is_some() {
            println!("--- case text ({tname}, mode {mode}, deviations {dv:?}) ---\n{text}");
        }
    });

    ctx.finish();
}
