//! C06 — decoding is total and always yields a well-formed beatmap.
//!
//! E1 over byte strings: line-level edit pairs of valid files, byte prefixes in four encodings,
//! single-byte substitutions, all short noise strings, all permutations of hit-object lines.
//! Every case runs in a worker subprocess (a crash or hang of the decoder is itself the violation).

use std::str::FromStr;

use rosu_pp::Beatmap;
use vh::{cmp::same, json::J, wf, Ctx, Local};

fn base(mode: u8, version: u32) -> String {
    format!(
        "osu file format v{version}\n\n[General]\nStackLeniency: 0.7\nMode: {mode}\n\n[Difficulty]\nHPDrainRate:5\nCircleSize:4\nOverallDifficulty:7\nApproachRate:8\nSliderMultiplier:1.4\nSliderTickRate:1\n\n[Events]\n2,3000,4000\n\n[TimingPoints]\n0,500,4,2,0,60,1,0\n1000,-50,4,2,0,60,0,1\n\n[HitObjects]\n100,100,1000,1,2,0:0:0:0:\n200,150,1500,2,0,B|250:150|300:200,2,140,2|0|8,0:0|0:0|0:0,0:0:0:0:\n256,192,2500,12,4,3200,0:0:0:0:\n300,192,3500,128,8,3900:0:0:0:0:\n"
    )
}

const CORNERS: [&str; 18] = ["0", "-1", "1", "NaN", "inf", "-inf", "1e999", "-1e999", "2147483647", "2147483648", "-2147483649", "131072", "131073", "9000", "9001", "1e-320", "0.00000001", ""];
const CORE_CORNERS: [&str; 5] = ["NaN", "inf", "2147483648", "-1", ""];

#[derive(Clone, Debug)]
enum Edit {
    Delete(usize),
    Dup(usize),
    Swap(usize, usize),
    Truncate(usize, usize),
    Splice(usize, usize, &'static str),
}

/// Byte ranges of the numeric-looking tokens of a line.
fn tokens(line: &str) -> Vec<(usize, usize)> {
    let mut out = Vec::new();
    let b = line.as_bytes();
    let mut i = 0;
    while i < b.len() {
        if b[i].is_ascii_digit() || ((b[i] == b'-' || b[i] == b'.') && i + 1 < b.len() && b[i + 1].is_ascii_digit()) {
            let s = i;
            i += 1;
            while i < b.len() && (b[i].is_ascii_digit() || b[i] == b'.') {
                i += 1;
            }
            // not part of an identifier like "v14"
            if s == 0 || !b[s - 1].is_ascii_alphabetic() {
                out.push((s, i));
            }
        } else {
            i += 1;
        }
    }
    out
}

fn edits(lines: &[String], core_only: bool) -> Vec<Edit> {
    let mut v = Vec::new();
    for (i, l) in lines.iter().enumerate() {
        if l.is_empty() {
            continue;
        }
        v.push(Edit::Delete(i));
        v.push(Edit::Dup(i));
        let toks = tokens(l);
        let corners: &[&'static str] = if core_only { &CORE_CORNERS } else { &CORNERS };
        for (t, _) in toks.iter().enumerate() {
            for c in corners {
                v.push(Edit::Splice(i, t, c));
            }
        }
        if !core_only {
            for k in 0..l.len() {
                v.push(Edit::Truncate(i, k));
            }
            for j in i + 1..lines.len() {
                if !lines[j].is_empty() {
                    v.push(Edit::Swap(i, j));
                }
            }
        }
    }
    v
}

fn apply(lines: &mut Vec<String>, e: &Edit) {
    let n = lines.len();
    if n == 0 {
        return;
    }
    match *e {
        Edit::Delete(i) => {
            lines.remove(i.min(n - 1));
        }
        Edit::Dup(i) => {
            let i = i.min(n - 1);
            let l = lines[i].clone();
            lines.insert(i, l);
        }
        Edit::Swap(i, j) => lines.swap(i.min(n - 1), j.min(n - 1)),
        Edit::Truncate(i, k) => {
            let i = i.min(n - 1);
            let k = k.min(lines[i].len());
            if lines[i].is_char_boundary(k) {
                lines[i].truncate(k);
            }
        }
        Edit::Splice(i, t, c) => {
            let i = i.min(n - 1);
            let toks = tokens(&lines[i]);
            if let Some(&(a, b)) = toks.get(t) {
                lines[i].replace_range(a..b, c);
            }
        }
    }
}

/// The oracle for one byte string. `pairing`: for modes 0-2 the hit sound must equal f(x).
fn oracle(l: &mut Local<'_>, bytes: &[u8], with_path: bool, pairing: bool, desc: &dyn Fn() -> String) {
    l.states(1);
    l.checked(1);
    let r = Beatmap::from_bytes(bytes);
    let map = match r {
        Ok(m) => m,
        Err(_) => return, // an io::Error is allowed
    };
    l.nontrivial();
    if let Some(msg) = wf::check(&map) {
        let class = format!("malformed_{}", msg.split_whitespace().next().unwrap_or("x").replace(|c: char| !c.is_alphanumeric() && c != '_', ""));
        l.violation(&class, || format!("{}\ndecoded map is not well-formed: {msg}", desc()));
        return;
    }
    if pairing && (map.mode as u8) < 3 {
        for (h, s) in map.hit_objects.iter().zip(&map.hit_sounds) {
            let k = (h.pos.x / 10.0) as usize;
            let want = SOUND_OF[k % SOUND_OF.len()];
            if u8::from(*s) != want {
                l.violation("sound_pairing", || format!("{}\nobject at x={} t={} carries hit sound {} but its line says {want}", desc(), h.pos.x, h.start_time, u8::from(*s)));
                return;
            }
        }
    }
    if let Ok(text) = std::str::from_utf8(bytes) {
        l.checked(1);
        match Beatmap::from_str(text) {
            Ok(m2) => {
                if !same(&map, &m2) {
                    l.violation("bytes_vs_str", || format!("{}\nfrom_bytes and from_str give different maps", desc()));
                    return;
                }
            }
            Err(e) => {
                l.violation("bytes_vs_str", || format!("{}\nfrom_bytes is Ok but from_str fails: {e}", desc()));
                return;
            }
        }
    }
    if with_path {
        let dir = std::path::PathBuf::from(std::env::var("VERIF_ROOT").unwrap_or_else(|_| "/verif".into())).join("target").join("c06-tmp");
        let _ = std::fs::create_dir_all(&dir);
        let p = dir.join(format!("{}-{}.osu", std::process::id(), l.idx));
        if std::fs::write(&p, bytes).is_ok() {
            l.checked(1);
            let r = Beatmap::from_path(&p);
            let _ = std::fs::remove_file(&p);
            match r {
                Ok(m3) => {
                    if !same(&map, &m3) {
                        l.violation("bytes_vs_path", || format!("{}\nfrom_bytes and from_path give different maps", desc()));
                    }
                }
                Err(e) => l.violation("bytes_vs_path", || format!("{}\nfrom_bytes is Ok but from_path fails: {e}", desc())),
            }
        }
    }
}

const SOUND_OF: [u8; 6] = [0, 2, 4, 8, 6, 12];

fn utf16(s: &str, be: bool) -> Vec<u8> {
    let mut v: Vec<u8> = if be { vec![0xFE, 0xFF] } else { vec![0xFF, 0xFE] };
    for u in s.encode_utf16() {
        v.extend(if be { u.to_be_bytes() } else { u.to_le_bytes() });
    }
    v
}

fn permutations(n: usize) -> Vec<Vec<usize>> {
    fn rec(cur: &mut Vec<usize>, used: &mut Vec<bool>, n: usize, out: &mut Vec<Vec<usize>>) {
        if cur.len() == n {
            out.push(cur.clone());
            return;
        }
        for i in 0..n {
            if !used[i] {
                used[i] = true;
                cur.push(i);
                rec(cur, used, n, out);
                cur.pop();
                used[i] = false;
            }
        }
    }
    let mut out = Vec::new();
    rec(&mut Vec::new(), &mut vec![false; n], n, &mut out);
    out
}

fn hex(b: &[u8]) -> String {
    let shown = &b[..b.len().min(600)];
    format!("{} bytes: {}", b.len(), String::from_utf8_lossy(shown).replace('\r', "\\r"))
}

fn main() {
    let ctx = Ctx::from_env("C06");
    ctx.rule("universes: (a) a valid file per mode x format version {14,7,5} under every single line-level edit (delete, duplicate, swap two lines, truncate at every byte, splice each of 18 corner tokens incl. NaN/inf/1e999/limit+1 into every numeric field) and every ordered pair of core edits (delete, duplicate, splice 5 corners) [thorough: every pair of all edits on v14]; (b) every byte prefix of those files in UTF-8, UTF-8+BOM, UTF-16LE, UTF-16BE; (c) every single-byte substitution from {00,80,C3,FF,'[',','} at every offset; (d) all byte strings of length <= 2 and all strings of length <= 5 over a 10-symbol structural alphabet, raw and inside [HitObjects] / [TimingPoints]; (e) all permutations of <= 6 hit-object lines with duplicate and out-of-order times, hit sound = f(x), and of 6 lines with 6 distinct times (mania with hold notes, osu!); (f) all permutations of <= 6 control-point lines (uninherited, inherited, kiai) with repeated and out-of-order times. Oracle: worker survives (no panic / abort / hang), Ok or io::Error; on Ok the map is well-formed (order, one sound per object and the right one, control points strictly ordered, all floats finite and inside the documented clamps), from_bytes == from_str == from_path; non-trivial = decoded Ok");
    ctx.assume("from_path is compared on every 16th case of (a)-(d) and on every case of (e) (temp file under /verif/target)");

    let quick = ctx.quick();
    let versions: &[u32] = &[14, 7, 5];
    // (b) prefixes in four encodings, (c) substitutions
    for mode in 0..4u8 {
        let text = base(mode, 14);
        let encs: Vec<(&str, Vec<u8>)> = vec![
            ("utf8", text.as_bytes().to_vec()),
            ("utf8-bom", [&[0xEF, 0xBB, 0xBF][..], text.as_bytes()].concat()),
            ("utf16le", utf16(&text, false)),
            ("utf16be", utf16(&text, true)),
        ];
        for (ename, bytes) in &encs {
            let name = format!("b-prefixes/mode{mode}/{ename}");
            ctx.universe_isolated(&name, bytes.len() as u64 + 1, 2.0, 1024, |idx, l| {
                let b = &bytes[..idx as usize];
                oracle(l, b, idx % 16 == 0, false, &|| format!("prefix of length {idx} in {ename}\n{}", hex(b)));
            });
        }
        let subs: [u8; 6] = [0x00, 0x80, 0xC3, 0xFF, b'[', b','];
        for (ename, bytes) in encs.iter().take(if quick { 1 } else { 4 }) {
            let name = format!("c-substitutions/mode{mode}/{ename}");
            ctx.universe_isolated(&name, bytes.len() as u64 * 6, 2.0, 1024, |idx, l| {
                let mut b = bytes.clone();
                let (off, s) = ((idx / 6) as usize, subs[(idx % 6) as usize]);
                b[off] = s;
                oracle(l, &b, idx % 16 == 0, false, &|| format!("byte {off} replaced by {s:#04x} ({ename})\n{}", hex(&b)));
            });
        }
    }

    // (d) noise
    let prefixes: [&str; 3] = ["", "osu file format v14\n[HitObjects]\n", "osu file format v14\n[General]\nMode: 3\n[TimingPoints]\n"];
    for (pi, pre) in prefixes.iter().enumerate() {
        let name = format!("d-noise/all-bytes<=2/prefix{pi}");
        ctx.universe_isolated(&name, 1 + 256 + 65536, 2.0, 1024, |idx, l| {
            let mut b = pre.as_bytes().to_vec();
            if idx >= 1 && idx <= 256 {
                b.push((idx - 1) as u8);
            } else if idx > 256 {
                let k = idx - 257;
                b.push((k >> 8) as u8);
                b.push((k & 255) as u8);
            }
            oracle(l, &b, idx % 64 == 0, false, &|| hex(&b));
        });
        let alpha: [u8; 10] = [b'[', b']', b',', b':', b'|', b'0', b'1', b'-', b'\n', b'N'];
        let maxlen = if quick { 4 } else { 5 };
        let total: u64 = (0..=maxlen).map(|k| 10u64.pow(k)).sum();
        let name = format!("d-noise/structural<={maxlen}/prefix{pi}");
        ctx.universe_isolated(&name, total, 2.0, 1024, |mut idx, l| {
            let mut len = 0u32;
            loop {
                let c = 10u64.pow(len);
                if idx < c {
                    break;
                }
                idx -= c;
                len += 1;
            }
            let mut b = pre.as_bytes().to_vec();
            for _ in 0..len {
                b.push(alpha[(idx % 10) as usize]);
                idx /= 10;
            }
            oracle(l, &b, false, false, &|| hex(&b));
        });
    }

    // (e) permutations of hit-object lines
    let times = [1000, 1000, 500, 2000, 1500, 500];
    for mode in 0..4u8 {
        for n in 1..=if quick { 5 } else { 6 } {
            let perms = permutations(n);
            let name = format!("e-permutations/mode{mode}/n{n}");
            ctx.universe_isolated(&name, perms.len() as u64, 2.0, 1024, |idx, l| {
                let mut t = format!("osu file format v14\n[General]\nMode: {mode}\n[TimingPoints]\n0,500,4,2,0,60,1,0\n[HitObjects]\n");
                for &k in &perms[idx as usize] {
                    let x = 10 * k;
                    let s = SOUND_OF[k];
                    let time = times[k];
                    match k % 3 {
                        0 => t.push_str(&format!("{x},100,{time},1,{s},0:0:0:0:\n")),
                        1 => t.push_str(&format!("{x},100,{time},2,{s},L|{}:100,1,50\n", x + 50)),
                        _ => t.push_str(&format!("{x},100,{time},1,{s}\n")),
                    }
                }
                oracle(l, t.as_bytes(), true, true, &|| format!("permutation {:?}\n--- text ---\n{t}", perms[idx as usize]));
            });
        }
    }
    // (e-distinct) six lines with six distinct times in every order, mania and osu! (mania files go through a second, legacy
    // sort whose behaviour depends on the arrival order)
    let dtimes = [6000, 5000, 2000, 3000, 0, 7000];
    for mode in [3u8, 0] {
        let perms = permutations(6);
        let name = format!("e-permutations-distinct-times/mode{mode}/n6");
        ctx.universe_isolated(&name, perms.len() as u64, 2.0, 1024, |idx, l| {
            let mut t = format!("osu file format v14\n[General]\nMode: {mode}\n[Difficulty]\nCircleSize:4\n[TimingPoints]\n0,500,4,2,0,60,1,0\n[HitObjects]\n");
            for &k in &perms[idx as usize] {
                let x = 10 * k;
                let s = SOUND_OF[k];
                let time = dtimes[k];
                match (k % 3, mode) {
                    (1, 3) => t.push_str(&format!("{x},100,{time},128,{s},{}:0:0:0:0:\n", time + 300)),
                    (1, _) => t.push_str(&format!("{x},100,{time},2,{s},L|{}:100,1,50\n", x + 50)),
                    _ => t.push_str(&format!("{x},100,{time},1,{s},0:0:0:0:\n")),
                }
            }
            oracle(l, t.as_bytes(), true, mode != 3, &|| format!("permutation {:?}\n--- text ---\n{t}", perms[idx as usize]));
        });
    }
    // (e') the same with fractional start times that differ but round (to even / half up) onto the same or onto swapped
    // milliseconds: the sort must still order by the actual time
    let ftimes = ["1000.6", "1001.4", "1000.5", "1001.5", "999.5", "1000.49"];
    for mode in 0..4u8 {
        for n in 2..=if quick { 4 } else { 6 } {
            let perms = permutations(n);
            let name = format!("e-permutations-fractional/mode{mode}/n{n}");
            ctx.universe_isolated(&name, perms.len() as u64, 2.0, 1024, |idx, l| {
                let mut t = format!("osu file format v14\n[General]\nMode: {mode}\n[TimingPoints]\n0,500,4,2,0,60,1,0\n[HitObjects]\n");
                for &k in &perms[idx as usize] {
                    let x = 10 * k;
                    let s = SOUND_OF[k];
                    let time = ftimes[k];
                    match k % 3 {
                        0 | 2 => t.push_str(&format!("{x},100,{time},1,{s},0:0:0:0:\n")),
                        _ => t.push_str(&format!("{x},100,{time},2,{s},L|{}:100,1,50\n", x + 50)),
                    }
                }
                oracle(l, t.as_bytes(), true, true, &|| format!("permutation {:?}\n--- text ---\n{t}", perms[idx as usize]));
            });
        }
    }
    // (e'') the same with negative start times (objects before the audio starts are legal): the order must be by value, not by
    // magnitude or bit pattern
    let ntimes = ["-300", "-600", "0", "300", "-900", "-1200"];
    for mode in 0..4u8 {
        for n in 2..=if quick { 4 } else { 6 } {
            let perms = permutations(n);
            let name = format!("e-permutations-negative/mode{mode}/n{n}");
            ctx.universe_isolated(&name, perms.len() as u64, 2.0, 1024, |idx, l| {
                let mut t = format!("osu file format v14\n[General]\nMode: {mode}\n[TimingPoints]\n-2000,500,4,2,0,60,1,0\n[HitObjects]\n");
                for &k in &perms[idx as usize] {
                    let x = 10 * k;
                    let s = SOUND_OF[k];
                    let time = ntimes[k];
                    match k % 3 {
                        0 | 2 => t.push_str(&format!("{x},100,{time},1,{s},0:0:0:0:\n")),
                        _ => t.push_str(&format!("{x},100,{time},2,{s},L|{}:100,1,50\n", x + 50)),
                    }
                }
                oracle(l, t.as_bytes(), true, true, &|| format!("permutation {:?}\n--- text ---\n{t}", perms[idx as usize]));
            });
        }
    }
    // (f) permutations of control-point lines: files list them in any order, with repeated times, and the three lists
    // (timing, difficulty, effect) must come out strictly ordered whatever the order of arrival
    let cp_lines = ["1000,400,4,2,0,60,1,0", "500,300,4,2,0,60,1,0", "1000,250,4,2,0,60,1,0", "500,-50,4,2,0,60,0,0", "1000,-200,4,2,0,60,0,1", "1500,-50,4,2,0,60,0,0"];
    for mode in 0..4u8 {
        for n in 2..=6 {
            let perms = permutations(n);
            let name = format!("f-permutations-control-points/mode{mode}/n{n}");
            ctx.universe_isolated(&name, perms.len() as u64, 2.0, 1024, |idx, l| {
                let mut t = format!("osu file format v14\n[General]\nMode: {mode}\n[TimingPoints]\n");
                for &k in &perms[idx as usize] {
                    t.push_str(cp_lines[k]);
                    t.push('\n');
                }
                t.push_str("[HitObjects]\n100,100,600,1,0,0:0:0:0:\n200,100,1100,2,0,L|250:100,1,50\n300,100,1600,1,2,0:0:0:0:\n");
                oracle(l, t.as_bytes(), true, false, &|| format!("control-point lines in order {:?}\n--- text ---\n{t}", perms[idx as usize]));
            });
        }
    }
    // (a) comes last: it is by far the largest universe, and the internal wall cap must not starve the others
    // (a) single edits + core pairs
    for mode in 0..4u8 {
        for &version in versions {
            let text = base(mode, version);
            let lines: Vec<String> = text.lines().map(str::to_owned).collect();
            let all = edits(&lines, false);
            let core = edits(&lines, true);
            let pair_set = if quick || version != 14 { &core } else { &all };
            let n1 = all.len() as u64;
            let n2 = if quick && version != 14 { 0 } else { (pair_set.len() * pair_set.len()) as u64 };
            let name = format!("a-edits/mode{mode}/v{version}");
            ctx.universe_isolated(&name, n1 + n2, 2.0, 1024, |idx, l| {
                let mut ls = lines.clone();
                let applied: Vec<Edit> = if idx < n1 {
                    vec![all[idx as usize].clone()]
                } else {
                    let k = (idx - n1) as usize;
                    vec![pair_set[k / pair_set.len()].clone(), pair_set[k % pair_set.len()].clone()]
                };
                for e in &applied {
                    apply(&mut ls, e);
                }
                let mut t = ls.join("\n");
                t.push('\n');
                if l.want_sample() {
                    let mut o = J::obj();
                    o.set("universe", J::s(name.clone()));
                    o.set("index", J::i(idx));
                    o.set("edits", J::s(format!("{applied:?}")));
                    l.sample(o);
                }
                oracle(l, t.as_bytes(), idx % 16 == 0, false, &|| format!("edits={applied:?}\n--- text ---\n{t}"));
            });
        }
    }

    ctx.finish();
}
