//! Self-test of E4 (shared-access preemption) on a toy "library" inside this binary:
//!  A  a racy cache (atomic key + lock-protected table, not updated as one unit) — must be found with one preemption;
//!  B  the same cache updated as one unit under a mutex — hot points exist, no violation;
//!  C  a pure function — no hot point at all.
use std::sync::{
    atomic::{AtomicI64, Ordering},
    Mutex, RwLock,
};

use vh::guard::{self, Region, RegionKind, RunCfg};

#[no_mangle]
pub static VH_TOY_KEY: AtomicI64 = AtomicI64::new(i64::MIN);
#[no_mangle]
pub static VH_TOY_TABLE: RwLock<[i32; 56]> = RwLock::new([0; 56]);
#[no_mangle]
pub static VH_TOY_UNIT: Mutex<(i64, [i32; 56])> = Mutex::new((i64::MIN, [0; 56]));

fn generate(seed: i32) -> [i32; 56] {
    let mut t = [0i32; 56];
    let mut x = seed.wrapping_mul(1_103_515_245).wrapping_add(12345);
    for v in &mut t {
        x = x.wrapping_mul(1_103_515_245).wrapping_add(12345);
        *v = x >> 8;
    }
    t
}

fn fold(t: &[i32; 56]) -> u64 {
    t.iter().fold(0u64, |a, v| a.wrapping_mul(31).wrapping_add(*v as u32 as u64))
}

fn calc_a(seed: i32) -> u64 {
    let t = if VH_TOY_KEY.load(Ordering::Acquire) == i64::from(seed) {
        *VH_TOY_TABLE.read().unwrap()
    } else {
        let t = generate(seed);
        *VH_TOY_TABLE.write().unwrap() = t;
        VH_TOY_KEY.store(i64::from(seed), Ordering::Release);
        t
    };
    fold(&t)
}

fn calc_b(seed: i32) -> u64 {
    let mut g = VH_TOY_UNIT.lock().unwrap();
    if g.0 != i64::from(seed) {
        *g = (i64::from(seed), generate(seed));
    }
    fold(&g.1)
}

fn calc_c(seed: i32) -> u64 {
    fold(&generate(seed))
}

fn calc(variant: &str, seed: i32) -> u64 {
    match variant {
        "A" => calc_a(seed),
        "B" => calc_b(seed),
        _ => calc_c(seed),
    }
}

fn toy_regions() -> Result<Vec<Region>, String> {
    let (syms, bias) = guard::writable_statics(&|n| n.starts_with("VH_TOY_"))?;
    Ok(syms.into_iter().map(|(name, addr, size, _)| Region { name, base: addr.wrapping_add(bias), len: size, kind: RegionKind::Static }).collect())
}

fn main() {
    let args: Vec<String> = std::env::args().collect();
    if args.get(1).map(String::as_str) == Some("--run") {
        guard::arm_alarm(10);
        let variant = args[2].clone();
        let solo = args[3] == "solo";
        let prefix = guard::choices_from_arg(&args[4]);
        let hot = guard::hot_from_arg(&args[5]);
        let regions = toy_regions().expect("toy statics");
        let calls = [2, if solo { 0 } else { 2 }];
        let out = guard::run_two(RunCfg { regions, hot, prefix, max_points: 4000 }, calls, &|tid, _| calc(&variant, if tid == 0 { 1 } else { 2 }));
        print!("{}", out.to_wire());
        // sticky corruption: the same calls once more, sequentially
        for (t, seed) in [(0, 1), (1, 2)] {
            println!("Q {t} 0 {:x}", calc(&variant, seed));
        }
        return;
    }

    let exe = std::env::current_exe().expect("exe");
    let regions = match toy_regions() {
        Ok(r) if r.len() == 3 => r,
        other => {
            eprintln!("SELFTEST FAILED: guard: expected the 3 toy statics in the symbol table, got {other:?}");
            std::process::exit(1);
        }
    };
    let names: Vec<String> = regions.iter().map(|r| r.name.clone()).collect();
    let want = [fold(&generate(1)), fold(&generate(2))];
    let mut bad = false;
    for (variant, expect_violation, expect_hot) in [("A", true, true), ("B", false, true), ("C", false, false)] {
        // profile: each job alone
        let mut hot = Vec::new();
        for _ in 0..1 {
            match guard::run_child(&exe, &["--run".into(), variant.into(), "solo".into()], &[], &[]) {
                Ok((o, _)) => hot.extend(o.written),
                Err(e) => {
                    eprintln!("SELFTEST FAILED: guard: {e}");
                    std::process::exit(1);
                }
            }
        }
        let full = std::env::args().any(|a| a == "--full");
        for bound in [1usize, 2] {
            // the correct cache under bound 2 is ~9 k executions: only on request
            if variant == "B" && bound == 2 && !full {
                continue;
            }
            let mut stats = guard::ExploreStats::default();
            let run = |p: &[u8]| guard::run_child(&exe, &["--run".into(), variant.into(), "pair".into()], p, &hot).map(|(o, text)| (o, text));
            let r = guard::explore(
                &|p| run(p).map(|x| x.0),
                &|o| {
                    for t in 0..2 {
                        if o.results[t].iter().any(|d| *d != want[t]) {
                            return Some(format!("thread {t} got {:x?}, alone {:x}", o.results[t], want[t]));
                        }
                    }
                    None
                },
                bound,
                20_000,
                &mut stats,
            );
            match r {
                Err(e) => {
                    eprintln!("SELFTEST FAILED: guard variant {variant}: {e}");
                    bad = true;
                }
                Ok(v) => {
                    let found = v.is_some();
                    println!("guard self-test variant {variant} bound {bound}: runs={} max_points={} max_branching={} hot_points={} capped={} violation={}", stats.runs, stats.max_points, stats.max_branching, stats.hot_points_seen, stats.capped, found);
                    if let Some((ch, msg, out)) = &v {
                        if bound == 1 {
                            println!("  choices={} {msg}\n{}", guard::choices_to_arg(ch), guard::describe_points(&out.points, &names));
                        }
                    }
                    if found != expect_violation || (stats.hot_points_seen > 0) != expect_hot || stats.capped {
                        eprintln!("SELFTEST FAILED: guard variant {variant} bound {bound}: violation={found} (expected {expect_violation}), hot points {} (expected some: {expect_hot})", stats.hot_points_seen);
                        bad = true;
                    }
                }
            }
        }
    }
    if !bad {
        println!("guard self-test ok");
    }
    std::process::exit(i32::from(bad));
}
