//! C19 — converted maps are well-formed inputs of their target mode.

use rosu_pp::{
    model::{hit_object::HitObjectKind, mode::GameMode},
    Beatmap,
};
use vh::{
    gen::{self, Kind, ModeCfg, PosK, Timing},
    settings::{self, ModSpec},
    uni::UniOpts,
    Ctx,
};

fn key_mods(rich: bool) -> Vec<(Option<u32>, ModSpec)> {
    let mut v = vec![(None, ModSpec::Bits(0))];
    for (i, b) in settings::KEY_BITS.iter().enumerate() {
        v.push((Some(i as u32 + 1), ModSpec::Bits(*b)));
    }
    v.push((Some(10), ModSpec::TenKeys));
    // a key mod next to the other legacy bits of the same region of the bit field (FadeIn 2^20, Random 2^21, Cinema 2^22,
    // Target 2^23, KeyCoop 2^25, ScoreV2 2^29, Mirror 2^30) and next to ordinary ones: the key mod still decides
    for (k, other) in [(1u32, 1u32 << 20), (2, 1 << 21), (3, 1 << 22), (9, 1 << 23), (1, 1 << 25), (4, 1 << 20), (8, 1 << 23), (9, 1 << 30), (2, 1 << 29), (7, settings::HR | settings::DT), (3, settings::FL | settings::HD)] {
        v.push((Some(k), ModSpec::Bits(settings::KEY_BITS[k as usize - 1] | other)));
    }
    if rich {
        v.push((None, ModSpec::Bits(settings::HR)));
        v.push((None, ModSpec::Random(Some(3.0))));
    }
    v
}

fn strictly_ordered(times: impl Iterator<Item = f64>) -> bool {
    let v: Vec<f64> = times.collect();
    v.windows(2).all(|w| w[0].total_cmp(&w[1]).is_lt())
}

fn well_formed(conv: &Beatmap) -> Option<String> {
    if !conv.hit_objects.windows(2).all(|w| w[0].start_time <= w[1].start_time) {
        return Some("start times are not non-decreasing".into());
    }
    for h in &conv.hit_objects {
        let dur = match &h.kind {
            HitObjectKind::Spinner(s) => s.duration,
            HitObjectKind::Hold(hn) => hn.duration,
            _ => 0.0,
        };
        if !(dur >= 0.0) {
            return Some(format!("object at {} has duration {dur}", h.start_time));
        }
    }
    if !strictly_ordered(conv.timing_points.iter().map(|t| t.time)) {
        return Some("timing points not strictly ordered".into());
    }
    if !strictly_ordered(conv.difficulty_points.iter().map(|t| t.time)) {
        return Some("difficulty points not strictly ordered".into());
    }
    if !strictly_ordered(conv.effect_points.iter().map(|t| t.time)) {
        return Some("effect points not strictly ordered".into());
    }
    None
}

fn main() {
    let ctx = Ctx::from_env("C19");
    ctx.rule("case = osu!standard grammar map (kinds circle / sliders / buzz / long slider / spinner; hit sounds {0,2,4,8,12}; gaps; stacked / far positions; timing presets with velocity points; format versions 14 and 7); per case: taiko, catch and mania conversion under no key mod and 1K-10K; oracle = times non-decreasing, durations >= 0, control points strictly ordered; taiko: one hit sound per object, and the (time, kind, sound) list equals the single-object converts merged stably by time; mania: cs == key mod value else in [4,7], every x maps to a column < cs (floor(x*cs/512)), x finite and >= 0; catch: objects and sounds untouched; universe 'backward-spinners': spinners ending before / at their start among circles and sliders; non-trivial = map has objects");

    // quick: N <= 3 over the 48-symbol alphabet; thorough: N <= 3 over the 240-symbol alphabet and N <= 4 over the 48-symbol one
    use vh::gen::DiffPreset as DP;
    // (other slider velocities and tick rates — how many objects a slider becomes depends on them; other OD / CS values —
    // the key count of a mania convert without key mod is chosen from them and the share of sliders and spinners)
    let variants: Vec<(u32, Timing, &str, DP)> = if ctx.quick() {
        vec![(14, Timing::T0, "v14", DP::D0), (7, Timing::T1, "v7-velocity", DP::D0), (14, Timing::T7, "v14-kiai-velocity-toggles", DP::D0), (14, Timing::T0, "v14-fast-sliders-8-ticks", DP::D2), (14, Timing::T0, "v14-2-ticks", DP::D3), (14, Timing::T0, "v14-all-zero-difficulty", DP::D1), (14, Timing::T0, "v14-od3-cs4", DP::D7), (14, Timing::T0, "v14-od5-cs5", DP::D6), (14, Timing::T0, "v14-od8-cs3", DP::D5)]
    } else {
        vec![(14, Timing::T0, "v14", DP::D0), (7, Timing::T1, "v7-velocity", DP::D0), (14, Timing::T7, "v14-kiai-velocity-toggles", DP::D0), (14, Timing::T6, "v14-two-timing", DP::D0), (5, Timing::T3, "v5-kiai", DP::D0), (14, Timing::T0, "v14-fast-sliders-8-ticks", DP::D2), (14, Timing::T0, "v14-2-ticks", DP::D3), (14, Timing::T1, "v14-slow-sliders", DP::D1), (14, Timing::T0, "v14-od3-cs4", DP::D7), (14, Timing::T0, "v14-od5-cs5", DP::D6), (14, Timing::T0, "v14-od8-cs3", DP::D5)]
    };
    let shapes: Vec<(u32, bool)> = if ctx.quick() { vec![(3, false)] } else { vec![(3, true), (4, false)] };
    for (version, timing, tag, preset) in variants {
      for &(n_max, wide) in &shapes {
        let mut opts = UniOpts::new(n_max);
        opts.cfgs = vec![ModeCfg { src: 0, dst: 0 }];
        opts.kinds_std = if !wide { vec![Kind::Circle, Kind::Slider2, Kind::Buzz, Kind::Spinner(600)] } else { vec![Kind::Circle, Kind::Slider1, Kind::Slider2, Kind::Buzz, Kind::SliderLong, Kind::Spinner(600)] };
        opts.sounds = if !wide { vec![0, 2, 12] } else { vec![0, 2, 4, 8, 12] };
        opts.gaps = if !wide { vec![150, 500] } else { vec![0, 150, 500, 1000] };
        opts.poss = vec![PosK::Same, PosK::Far];
        opts.version = version;
        opts.timing = timing;
        opts.diff = preset;
        opts.tag = format!("/{tag}");
        let kms = key_mods(!ctx.quick());
        for u in opts.build() {
            ctx.universe(&u.name, u.total, |idx, l| {
                let (spec, map) = u.decode(idx);
                u.sample(l, idx, &spec, "taiko + catch + mania x {no key mod, 1K..10K}");
                if !map.hit_objects.is_empty() {
                    l.nontrivial();
                }
                let ctxs = |extra: String| format!("{extra}\nspec={}\n--- .osu ---\n{}", spec.describe(), spec.text());
                // taiko
                let t = map.clone().convert(GameMode::Taiko, &ModSpec::Bits(0).build(GameMode::Taiko)).expect("convertible");
                l.states(1);
                l.checked(1);
                if let Some(msg) = well_formed(&t) {
                    l.violation("taiko_form", || ctxs(format!("taiko convert: {msg}")));
                    return;
                }
                if t.hit_sounds.len() != t.hit_objects.len() {
                    l.violation("taiko_sounds", || ctxs(format!("taiko convert: {} objects but {} hit sounds", t.hit_objects.len(), t.hit_sounds.len())));
                    return;
                }
                // every hit keeps the sound of the object it was made from: the taiko conversion works object by object, so the
                // (time, sound) pairs of the whole convert are those of the single-object converts, merged stably by time
                {
                    let mut expected: Vec<(f64, bool, u8)> = Vec::new();
                    for i in 0..map.hit_objects.len() {
                        let mut single = map.clone();
                        single.hit_objects = vec![map.hit_objects[i].clone()];
                        single.hit_sounds = vec![map.hit_sounds[i]];
                        let ts = single.convert(GameMode::Taiko, &ModSpec::Bits(0).build(GameMode::Taiko)).expect("convertible");
                        expected.extend(ts.hit_objects.iter().zip(&ts.hit_sounds).map(|(h, s)| (h.start_time, h.is_circle(), u8::from(*s))));
                    }
                    expected.sort_by(|a, b| a.0.total_cmp(&b.0));
                    let got: Vec<(f64, bool, u8)> = t.hit_objects.iter().zip(&t.hit_sounds).map(|(h, s)| (h.start_time, h.is_circle(), u8::from(*s))).collect();
                    l.checked(1);
                    if got != expected {
                        l.violation("taiko_sound_pairing", || ctxs(format!("taiko convert: (start time, is hit, sound) of the whole map differs from the single-object converts merged stably by time\n whole map : {got:?}\n per object: {expected:?}")));
                        return;
                    }
                }
                // catch
                let c = map.clone().convert(GameMode::Catch, &ModSpec::Bits(0).build(GameMode::Catch)).expect("convertible");
                l.states(1);
                l.checked(1);
                if let Some(msg) = well_formed(&c) {
                    l.violation("catch_form", || ctxs(format!("catch convert: {msg}")));
                    return;
                }
                if c.hit_objects != map.hit_objects || c.hit_sounds != map.hit_sounds {
                    l.violation("catch_untouched", || ctxs("catch convert changed the objects or hit sounds".into()));
                    return;
                }
                // mania
                for (keys, m) in &kms {
                    let mods = m.build(GameMode::Mania);
                    let mn = map.clone().convert(GameMode::Mania, &mods).expect("convertible");
                    l.states(1);
                    l.checked(1);
                    if let Some(msg) = well_formed(&mn) {
                        l.violation("mania_form", || ctxs(format!("mania convert ({m:?}): {msg}")));
                        return;
                    }
                    let cs = mn.cs;
                    let ok_cs = match keys {
                        Some(k) => cs == *k as f32,
                        None => (4.0..=7.0).contains(&cs) && cs.fract() == 0.0,
                    };
                    if !ok_cs {
                        l.violation("mania_keys", || ctxs(format!("mania convert ({m:?}): key count (cs) = {cs}")));
                        return;
                    }
                    for h in &mn.hit_objects {
                        let x = h.pos.x;
                        let col = (f64::from(x) * f64::from(cs) / 512.0).floor();
                        if !x.is_finite() || x < 0.0 || col >= f64::from(cs) {
                            l.violation("mania_column", || ctxs(format!("mania convert ({m:?}): object at t={} has x={x} i.e. column {col} which is not below {cs}", h.start_time)));
                            return;
                        }
                    }
                }
            });
        }
    }
      }
    // spinners that end before or exactly when they start, among circles and sliders: durations of every convert stay >= 0
    {
        let alpha = vh::gen::Alphabet::product(&[Kind::Circle, Kind::Slider2, Kind::SpinnerBack(800), Kind::Spinner(0), Kind::SpinnerBack(1)], &[150, 1000], &[PosK::Far], &[0, 8], &[0]);
        let n_max = ctx.pick(3u32, 4);
        ctx.universe(&format!("backward-spinners/N<={n_max}/|A|={}", alpha.len()), alpha.count_upto(n_max), |idx, l| {
            let spec = vh::gen::MapSpec::new(0, alpha.seq(idx, n_max));
            let map = spec.decode();
            l.states(1);
            if !map.hit_objects.is_empty() {
                l.nontrivial();
            }
            for target in [GameMode::Taiko, GameMode::Catch, GameMode::Mania] {
                let c = map.clone().convert(target, &ModSpec::Bits(0).build(target)).expect("convertible");
                l.checked(1);
                if let Some(msg) = well_formed(&c) {
                    l.violation("backward_spinner_form", || format!("{target:?} convert: {msg}\nspec={}\n--- .osu ---\n{}", spec.describe(), spec.text()));
                    return;
                }
            }
        });
    }
    // dense streams: a <= 1 object prefix + a stream of circles (plain / finish + clap sounds / overlapping / stacked),
    // 8 difficulty presets (the pattern generators' RNG is seeded from them), every key mod
    {
        use vh::gen::{Alphabet, DiffPreset, MapSpec, END_REL};
        let alpha = Alphabet::product(&[Kind::Circle, Kind::Slider2, Kind::Slider5, Kind::Spinner(600)], &[END_REL + 110], &[PosK::Far], &[0, 4], &[0]);
        let n_pref = alpha.count_upto(1);
        let streams: [(u32, u32); 3] = [(96, 62), (48, 125), (16, 250)];
        let presets = [DiffPreset::D0, DiffPreset::D4, DiffPreset::D5, DiffPreset::D6, DiffPreset::D7, DiffPreset::D8, DiffPreset::D1, DiffPreset::D2];
        let styles: [u8; 4] = [0, 2, 1, 6];
        let total = n_pref * (streams.len() * presets.len() * styles.len()) as u64;
        let kms = key_mods(true);
        ctx.universe("dense-streams/prefix<=1+stream", total, |idx, l| {
            let pi = idx % n_pref;
            let mut r = (idx / n_pref) as usize;
            let stream = streams[r % streams.len()];
            r /= streams.len();
            let diff = presets[r % presets.len()];
            let stream_style = styles[r / presets.len()];
            let spec = MapSpec { diff, stream, stream_style, ..MapSpec::new(0, alpha.seq(pi, 1)) };
            let map = spec.decode();
            l.nontrivial();
            let ctxs = |extra: String| format!("{extra}\nspec={}", spec.describe());
            for (keys, m) in &kms {
                let mn = map.clone().convert(GameMode::Mania, &m.build(GameMode::Mania)).expect("convertible");
                l.states(1);
                l.checked(1);
                if let Some(msg) = well_formed(&mn) {
                    l.violation("mania_form", || ctxs(format!("mania convert ({m:?}): {msg}")));
                    return;
                }
                let cs = mn.cs;
                if keys.is_some_and(|k| cs != k as f32) || (keys.is_none() && !((4.0..=7.0).contains(&cs))) {
                    l.violation("mania_keys", || ctxs(format!("mania convert ({m:?}): key count (cs) = {cs}")));
                    return;
                }
                for h in &mn.hit_objects {
                    let col = (f64::from(h.pos.x) * f64::from(cs) / 512.0).floor();
                    if !h.pos.x.is_finite() || h.pos.x < 0.0 || col >= f64::from(cs) {
                        l.violation("mania_column", || ctxs(format!("mania convert ({m:?}): object at t={} has x={} i.e. column {col} which is not below {cs}", h.start_time, h.pos.x)));
                        return;
                    }
                }
            }
            for target in [GameMode::Taiko, GameMode::Catch] {
                let c = map.clone().convert(target, &ModSpec::Bits(0).build(target)).expect("convertible");
                l.checked(1);
                if let Some(msg) = well_formed(&c) {
                    l.violation("dense_form", || ctxs(format!("{target:?} convert: {msg}")));
                    return;
                }
            }
        });
    }
    // realistic dense patterns: every window of 48 consecutive objects of the osu! fixture (step 8) and the whole map,
    // under no key mod and 1K-10K
    {
        let path = "/repo/resources/2785319.osu";
        let n_obj = Beatmap::from_path(path).map(|m| m.hit_objects.len()).unwrap_or(0);
        let starts: Vec<usize> = (0..n_obj).step_by(8).collect();
        let kms = key_mods(true);
        ctx.universe("fixture-windows/2785319.osu/48-objects-step-8", starts.len() as u64 + 1, |idx, l| {
            let map = if idx as usize == starts.len() { Beatmap::from_path(path).ok() } else { gen::fixture_window(path, starts[idx as usize], 48) };
            let Some(map) = map else {
                l.ctx.machinery_error("fixture unreadable".into());
                return;
            };
            l.nontrivial();
            let ctxs = |extra: String| format!("{extra}\nfixture {path}, window index {idx}");
            for target in [GameMode::Taiko, GameMode::Catch] {
                let c = map.clone().convert(target, &ModSpec::Bits(0).build(target)).expect("convertible");
                l.states(1);
                l.checked(1);
                if let Some(msg) = well_formed(&c) {
                    l.violation("fixture_form", || ctxs(format!("{target:?} convert: {msg}")));
                    return;
                }
                if target == GameMode::Taiko && c.hit_sounds.len() != c.hit_objects.len() {
                    l.violation("taiko_sounds", || ctxs("taiko convert: sounds and objects differ in number".into()));
                    return;
                }
            }
            for (keys, m) in &kms {
                let mn = map.clone().convert(GameMode::Mania, &m.build(GameMode::Mania)).expect("convertible");
                l.states(1);
                l.checked(1);
                if let Some(msg) = well_formed(&mn) {
                    l.violation("mania_form", || ctxs(format!("mania convert ({m:?}): {msg}")));
                    return;
                }
                let cs = mn.cs;
                if keys.is_some_and(|k| cs != k as f32) || (keys.is_none() && !((4.0..=7.0).contains(&cs))) {
                    l.violation("mania_keys", || ctxs(format!("mania convert ({m:?}): key count (cs) = {cs}")));
                    return;
                }
                for h in &mn.hit_objects {
                    let col = (f64::from(h.pos.x) * f64::from(cs) / 512.0).floor();
                    if !h.pos.x.is_finite() || h.pos.x < 0.0 || col >= f64::from(cs) {
                        l.violation("mania_column", || ctxs(format!("mania convert ({m:?}): object at t={} has x={} i.e. column {col} which is not below {cs}", h.start_time, h.pos.x)));
                        return;
                    }
                }
            }
        });
    }
    let _ = gen::game_mode(0);
    // fractional start times (x.4 / x.5 / x.6 / x.9 ms) with sliders of no or nearly no duration: converters round start and
    // end separately
    {
        let alpha = vh::gen::Alphabet::product(&[Kind::Circle, Kind::SliderZeroRep, Kind::SliderTiny, Kind::Slider2], &[0, 150], &[PosK::Far], &[0, 4], &[0]);
        let n_max = 2u32;
        let per = alpha.count_upto(n_max);
        let fracs = [4u8, 5, 6, 9];
        let presets = [vh::gen::DiffPreset::D0, vh::gen::DiffPreset::D2];
        let kms = key_mods(false);
        ctx.universe("fractional-start-times/N<=2", per * (fracs.len() * presets.len()) as u64, |idx, l| {
            let r = (idx / per) as usize;
            let spec = vh::gen::MapSpec { frac_tenths: fracs[r % fracs.len()], diff: presets[r / fracs.len()], ..vh::gen::MapSpec::new(0, alpha.seq(idx % per, n_max)) };
            let map = spec.decode();
            l.states(1);
            if !map.hit_objects.is_empty() {
                l.nontrivial();
            }
            for (_, m) in &kms {
                for target in 1..4u8 {
                    let mode = vh::gen::game_mode(target);
                    let Ok(conv) = map.clone().convert(mode, &m.build(mode)) else { continue };
                    l.checked(1);
                    if let Some(msg) = well_formed(&conv) {
                        l.violation(&format!("{}_form", ["osu", "taiko", "catch", "mania"][target as usize]), || format!("target={mode:?} mods={m:?}: {msg}\nspec={}\n--- .osu ---\n{}", spec.describe(), spec.text()));
                        return;
                    }
                }
            }
        });
    }
    // the neighbourhood of a slider's end: a straight slider of 200..=300 px (1.4 to 2.1 beats) followed by a circle 1 to 40 ms
    // after its end, then another circle — converters cut sliders into hits with a tolerance at the end, the next object
    // may fall before the last emitted hit
    {
        let lens: Vec<u16> = (200..=300).step_by(5).collect();
        let gaps = [1u32, 5, 10, 16, 25, 40];
        let presets = [vh::gen::DiffPreset::D0, vh::gen::DiffPreset::D3];
        let total = (lens.len() * gaps.len() * presets.len()) as u64;
        let kms = key_mods(false);
        ctx.universe("slider-end-neighbourhood/len-200..300-x-gap-1..40", total, |idx, l| {
            let mut r = idx as usize;
            let len = lens[r % lens.len()];
            r /= lens.len();
            let gap = gaps[r % gaps.len()];
            let preset = presets[r / gaps.len()];
            let o = |kind, gap| vh::gen::Obj { kind, gap, pos: PosK::Far, sound: 0, col: 0 };
            let spec = vh::gen::MapSpec { diff: preset, ..vh::gen::MapSpec::new(0, vec![o(Kind::Circle, 0), o(Kind::SliderLen(len), 300), o(Kind::Circle, vh::gen::END_REL + gap), o(Kind::Circle, 200)]) };
            let map = spec.decode();
            l.states(1);
            l.nontrivial();
            for (keys, m) in &kms {
                for target in 1..4u8 {
                    let mode = vh::gen::game_mode(target);
                    let Ok(conv) = map.clone().convert(mode, &m.build(mode)) else { continue };
                    l.checked(1);
                    let _ = keys;
                    if let Some(msg) = well_formed(&conv) {
                        l.violation(&format!("{}_form", ["osu", "taiko", "catch", "mania"][target as usize]), || format!("target={mode:?} mods={m:?}: {msg}\nspec={}\n--- .osu ---\n{}", spec.describe(), spec.text()));
                        return;
                    }
                }
            }
        });
    }
    ctx.finish();
}
