//! C01 — calculations are deterministic, pure functions of their inputs.
//!
//! (A) hash order: the one HashMap of the crate (bpm.rs) sits behind a seam; all k! iteration orders
//!     are enumerated for every timing set of the grammar. (B) E2 over call histories: every history
//!     of depth <= 3 over an op pool; each op's result must equal its result as the only op of a fresh
//!     process (two fresh processes per op: different ASLR / RandomState), and maps passed by
//!     reference must be unchanged.

use std::str::FromStr;

use rosu_pp::{any::ScoreState, Beatmap, Difficulty, GameMods, Performance};
use vh::{
    api,
    cmp::{canon, digest, same},
    gen::{self, DiffPreset, Kind, MapSpec, Obj, PosK, Timing},
    json::J,
    settings::{self, ModSpec, Setting},
    Ctx, Local,
};

fn pool() -> Vec<MapSpec> {
    let o = |k, gap, pos, sound, col| Obj { kind: k, gap, pos, sound, col };
    let std = |m: u8| MapSpec::new(m, vec![o(Kind::Circle, 0, PosK::Same, 0, 0), o(Kind::Slider2, 150, PosK::Far, 8, 0), o(Kind::Circle, 300, PosK::Far, 0, 0), o(Kind::Spinner(600), 150, PosK::Same, 4, 0), o(Kind::Circle, 1000, PosK::Far, 2, 0), o(Kind::Buzz, 150, PosK::Far, 0, 0)]);
    vec![
        std(0),
        std(1),
        std(2),
        // mania: chords (equal start times in different columns), holds overlapping notes
        MapSpec::new(3, vec![o(Kind::Circle, 0, PosK::Same, 0, 0), o(Kind::Circle, 0, PosK::Same, 0, 1), o(Kind::Circle, 0, PosK::Same, 0, 2), o(Kind::Hold(300), 150, PosK::Same, 0, 2), o(Kind::Circle, 0, PosK::Same, 0, 0), o(Kind::Circle, 100, PosK::Same, 0, 1), o(Kind::Hold(100), 100, PosK::Same, 0, 0), o(Kind::Circle, 0, PosK::Same, 0, 1), o(Kind::Circle, 90, PosK::Same, 0, 2), o(Kind::Circle, 0, PosK::Same, 0, 0)]),
        // tie-heavy timing
        MapSpec { timing: Timing::T2, ..std(0) },
        // same shape as #0, different positions / sounds / difficulty: collides with anything keyed by counts only
        MapSpec { diff: DiffPreset::D3, ..MapSpec::new(0, vec![o(Kind::Circle, 0, PosK::Far, 2, 0), o(Kind::Slider2, 150, PosK::Near, 0, 0), o(Kind::Circle, 300, PosK::Same, 8, 0), o(Kind::Spinner(600), 150, PosK::Same, 0, 0), o(Kind::Circle, 1000, PosK::Near, 0, 0), o(Kind::Buzz, 150, PosK::Same, 4, 0)]) },
    ]
}

fn settings_pool() -> Vec<Setting> {
    vec![
        Setting::nm(),
        Setting::bits(settings::HD | settings::HR | settings::DT),
        Setting { rate: Some(0.8), lazer: Some(false), ..Setting::mods(ModSpec::Random(Some(42.0))) },
        // lazer Random without a seed: whatever the library does with it, it must do the same every time
        Setting::mods(ModSpec::Random(None)),
    ]
}

#[derive(Clone, Copy, Debug, PartialEq, Eq)]
enum Kind1 {
    DecodeBytes,
    DecodeStr,
    Bpm,
    ConvertValue(u8),
    ConvertRef(u8),
    ConvertMut(u8),
    Difficulty(u8, u8),
    Strains(u8, u8),
    Performance(u8, u8),
    GradualDifficulty(u8, u8),
    GradualPerformance(u8, u8),
    ReuseBuilders(u8),
    /// the same map under a different conversion-relevant mod: mania by reference with the given key count
    ManiaKeys(u8),
    /// mania under a mod that rebuilds the object list inside the calculation: 0 Invert, 1 HoldOff, 2 HoldOff + Invert
    ManiaRebuild(u8),
    /// two gradual calculators (this map and the partner map, both for the given target mode) stepped alternately on this
    /// thread: each must yield what it yields when walked alone
    LockStep(u8, u8),
}

#[derive(Clone, Copy, Debug, PartialEq, Eq)]
struct Op {
    text: u8,
    kind: Kind1,
}

fn targets_of(mode: u8) -> Vec<u8> {
    if mode == 0 { vec![0, 1, 2, 3] } else { vec![mode] }
}

fn all_ops(specs: &[MapSpec], rich: bool) -> Vec<Op> {
    let mut v = Vec::new();
    for (ti, s) in specs.iter().enumerate() {
        let t = ti as u8;
        v.push(Op { text: t, kind: Kind1::DecodeBytes });
        v.push(Op { text: t, kind: Kind1::Bpm });
        if rich {
            v.push(Op { text: t, kind: Kind1::DecodeStr });
        }
        let tg = targets_of(s.mode);
        for &m in &tg {
            if m != s.mode || rich {
                v.push(Op { text: t, kind: Kind1::ConvertValue(m) });
            }
            if rich && m != s.mode {
                v.push(Op { text: t, kind: Kind1::ConvertRef(m) });
                v.push(Op { text: t, kind: Kind1::ConvertMut(m) });
            }
        }
        let n_sets = settings_pool().len() as u8;
        for si in 0..n_sets {
            // quick: native mode for all settings, converts for the first setting only
            for &m in &tg {
                if !rich && m != s.mode && (si != 0 || ti != 0) {
                    continue;
                }
                v.push(Op { text: t, kind: Kind1::Difficulty(m, si) });
                v.push(Op { text: t, kind: Kind1::GradualPerformance(m, si) });
                if rich || si == 1 {
                    v.push(Op { text: t, kind: Kind1::Strains(m, si) });
                    v.push(Op { text: t, kind: Kind1::Performance(m, si) });
                    v.push(Op { text: t, kind: Kind1::GradualDifficulty(m, si) });
                }
            }
        }
        v.push(Op { text: t, kind: Kind1::ReuseBuilders(s.mode) });
        if s.mode == 0 {
            for k in if rich { vec![1u8, 4, 7, 9] } else { vec![4u8, 7] } {
                v.push(Op { text: t, kind: Kind1::ManiaKeys(k) });
            }
        }
        if s.mode == 3 || ti == 0 {
            for i in 0..3u8 {
                v.push(Op { text: t, kind: Kind1::ManiaRebuild(i) });
            }
        }
        // partner = the next map that can reach the same target mode
        for &m in &tg {
            for (pi, ps) in specs.iter().enumerate() {
                if pi != ti && targets_of(ps.mode).contains(&m) && (rich || pi == (ti + 1) % specs.len() || ps.mode == m) {
                    v.push(Op { text: t, kind: Kind1::LockStep(m, pi as u8) });
                    break;
                }
            }
        }
    }
    v
}

struct World {
    specs: Vec<MapSpec>,
    texts: Vec<String>,
    maps: Vec<Beatmap>,
    setts: Vec<Setting>,
}

impl World {
    fn new() -> Self {
        let specs = pool();
        let texts: Vec<String> = specs.iter().map(MapSpec::text).collect();
        let maps = texts.iter().map(|t| Beatmap::from_bytes(t.as_bytes()).expect("decodes")).collect();
        Self { specs, texts, maps, setts: settings_pool() }
    }

    /// Execute one op; returns (digest of the canonical result, purity violation if any).
    fn exec(&self, op: Op) -> (u64, Option<String>) {
        let ti = op.text as usize;
        let map = &self.maps[ti];
        let before = map.clone();
        let mut impure = None;
        let out: String = match op.kind {
            Kind1::DecodeBytes => format!("{:?}", Beatmap::from_bytes(self.texts[ti].as_bytes()).map_err(|e| e.to_string())),
            Kind1::DecodeStr => format!("{:?}", Beatmap::from_str(&self.texts[ti]).map_err(|e| e.to_string())),
            Kind1::Bpm => format!("{:?}", map.bpm()),
            Kind1::ConvertValue(m) => format!("{:?}", map.clone().convert(gen::game_mode(m), &GameMods::default())),
            Kind1::ConvertRef(m) => format!("{:?}", map.convert_ref(gen::game_mode(m), &ModSpec::Bits(settings::KEY7).build(gen::game_mode(m))).map(std::borrow::Cow::into_owned)),
            Kind1::ConvertMut(m) => {
                let mut c = map.clone();
                let r = c.convert_mut(gen::game_mode(m), &ModSpec::Random(Some(9.0)).build(gen::game_mode(m)));
                format!("{r:?} {c:?}")
            }
            Kind1::Difficulty(m, si) => format!("{:?}", api::difficulty(&self.setts[si as usize].difficulty(gen::game_mode(m)), map, m)),
            Kind1::Strains(m, si) => format!("{:?}", api::strains(&self.setts[si as usize].difficulty(gen::game_mode(m)), map, m)),
            Kind1::Performance(m, si) => {
                let d = self.setts[si as usize].difficulty(gen::game_mode(m));
                let p = Performance::new(map).difficulty(d).try_mode(gen::game_mode(m)).ok().expect("reachable");
                format!("{:?}", p.accuracy(97.1).misses(1).calculate())
            }
            Kind1::GradualDifficulty(m, si) => {
                let g = api::gradual(self.setts[si as usize].difficulty(gen::game_mode(m)), map, m).expect("reachable");
                format!("{:?}", g.collect::<Vec<_>>())
            }
            Kind1::GradualPerformance(m, si) => {
                let mut g = api::gradual_perf(self.setts[si as usize].difficulty(gen::game_mode(m)), map, m).expect("reachable");
                let st = ScoreState { max_combo: 2, n300: 1, n100: 1, ..ScoreState::new() };
                let mut v = Vec::new();
                while let Some(x) = g.next(st.clone()) {
                    v.push(x);
                }
                format!("{v:?}")
            }
            Kind1::ManiaKeys(k) => {
                let bits = settings::KEY_BITS[usize::from(k) - 1];
                let mods = GameMods::from(bits);
                let conv = map.convert_ref(gen::game_mode(3), &mods).map(std::borrow::Cow::into_owned);
                let d = Difficulty::new().mods(bits);
                let a = api::difficulty(&d, map, 3);
                let st = api::strains(&d, map, 3);
                let p = Performance::new(map).mods(bits).try_mode(gen::game_mode(3)).ok().map(|p| p.accuracy(98.0).calculate());
                format!("{conv:?} {a:?} {st:?} {p:?}")
            }
            Kind1::ManiaRebuild(i) => {
                let spec = [ModSpec::Invert, ModSpec::HoldOff, ModSpec::HoIn(None)][usize::from(i)].clone();
                let d = Difficulty::new().mods(spec.build(gen::game_mode(3)));
                let a = api::difficulty(&d, map, 3);
                let st = api::strains(&d, map, 3);
                let g: Option<Vec<_>> = api::gradual(d, map, 3).ok().map(Iterator::collect);
                format!("{a:?} {st:?} {g:?}")
            }
            Kind1::LockStep(m, partner) => {
                let d = self.setts[1].difficulty(gen::game_mode(m));
                let other = &self.maps[partner as usize];
                let alone_a: Vec<_> = api::gradual(d.clone(), map, m).expect("reachable").collect();
                let alone_b: Vec<_> = api::gradual(d.clone(), other, m).expect("reachable").collect();
                let (mut ga, mut gb) = (api::gradual(d.clone(), map, m).expect("reachable"), api::gradual(d.clone(), other, m).expect("reachable"));
                let (mut va, mut vb) = (Vec::new(), Vec::new());
                loop {
                    let (x, y) = (ga.next(), gb.next());
                    if x.is_none() && y.is_none() {
                        break;
                    }
                    va.extend(x);
                    vb.extend(y);
                }
                if !same(&va, &alone_a) || !same(&vb, &alone_b) {
                    impure = Some(format!("two gradual calculators (maps #{} and #{partner}, target mode {m}) stepped alternately on one thread yield different values than each walked alone", op.text));
                }
                // performance too
                let st = ScoreState { max_combo: 2, n300: 1, n100: 1, ..ScoreState::new() };
                let alone_pa: Vec<_> = { let mut g = api::gradual_perf(d.clone(), map, m).expect("reachable"); std::iter::from_fn(|| g.next(st.clone())).collect() };
                let (mut pa, mut pb) = (api::gradual_perf(d.clone(), map, m).expect("reachable"), api::gradual_perf(d, other, m).expect("reachable"));
                let mut vpa = Vec::new();
                loop {
                    let (x, y) = (pa.next(st.clone()), pb.next(st.clone()));
                    if x.is_none() && y.is_none() {
                        break;
                    }
                    vpa.extend(x);
                }
                if impure.is_none() && !same(&vpa, &alone_pa) {
                    impure = Some(format!("two gradual performance calculators (maps #{} and #{partner}, mode {m}) stepped alternately yield different values than walked alone", op.text));
                }
                format!("{va:?}")
            }
            Kind1::ReuseBuilders(_) => {
                // the same Difficulty value called twice, a cloned Performance calculated twice
                let d: Difficulty = self.setts[1].difficulty(map.mode);
                let a1 = d.calculate(map);
                let a2 = d.calculate(map);
                let p = Performance::new(map).difficulty(d.clone()).accuracy(95.0);
                let (r1, r2) = (p.clone().calculate(), p.calculate());
                if !same(&a1, &a2) || !same(&r1, &r2) {
                    impure = Some("a reused Difficulty / cloned Performance gave two different results".to_owned());
                }
                // a builder that has already been *used* and is then reconfigured must behave like a fresh one with the same
                // final configuration (nothing learnt during a calculation may stick to the value)
                type Set = (&'static str, fn(Difficulty, rosu_pp::model::mode::GameMode) -> Difficulty);
                let firsts: [Set; 4] = [
                    ("mods(lazer Classic)", |d, m| d.mods(ModSpec::Classic(None).build(m))),
                    ("mods(lazer DT x1.5)", |d, m| d.mods(ModSpec::Rate(1.5).build(m))),
                    ("mods(lazer HT x0.8)", |d, m| d.mods(ModSpec::Rate(0.8).build(m))),
                    ("mods(DT bits)", |d, _| d.mods(settings::DT)),
                ];
                let seconds: [Set; 8] = [
                    firsts[0],
                    firsts[1],
                    firsts[2],
                    firsts[3],
                    ("clock_rate(1.3)", |d, _| d.clock_rate(1.3)),
                    ("lazer(false)", |d, _| d.lazer(false)),
                    ("ar(9, true)", |d, _| d.ar(9.0, true)),
                    ("mods(HR bits)", |d, _| d.mods(settings::HR)),
                ];
                for (n1, s1) in firsts {
                    let used = s1(Difficulty::new(), map.mode);
                    let _ = used.calculate(map);
                    let _ = used.strains(map);
                    for (n2, s2) in seconds {
                        let reconfigured = s2(used.clone(), map.mode).calculate(map);
                        let fresh = s2(s1(Difficulty::new(), map.mode), map.mode).calculate(map);
                        if impure.is_none() && !same(&reconfigured, &fresh) {
                            impure = Some(format!("Difficulty::new().{n1}, used for a calculation, then .{n2}: differs from the same two setters on a value that was never used\n used then reconfigured: {reconfigured:?}\n fresh                 : {fresh:?}"));
                        }
                    }
                }
                format!("{a1:?} {r1:?}")
            }
        };
        if impure.is_none() && !same(map, &before) {
            impure = Some(format!("op {op:?} modified the map it was given by reference"));
        }
        (digest(&canon(&out)), impure)
    }
}

/// Builder histories that must not matter, decided once per map: configure-then-switch vs switch-then-configure, and
/// generate_state() before calculate().
fn builder_histories(map: &Beatmap) -> Option<String> {
    // a calculator configured and then switched to another mode must be the calculator one gets by switching first
    // and configuring afterwards (the switch carries the whole configuration over, whatever its history)
    if map.mode == rosu_pp::model::mode::GameMode::Osu {
        use rosu_pp::any::HitResultPriority::WorstCase;
        type Cfg = (&'static str, fn(Performance<'_>) -> Performance<'_>);
        let cfgs: [Cfg; 4] = [
            ("hitresult_priority(WorstCase).misses(1)", |p| p.hitresult_priority(WorstCase).misses(1)),
            ("hitresult_priority(WorstCase).accuracy(80)", |p| p.hitresult_priority(WorstCase).accuracy(80.0)),
            ("mods(HR).combo(2).n100(1)", |p| p.mods(settings::HR).combo(2).n100(1)),
            ("lazer(false).passed_objects(3).misses(1)", |p| p.lazer(false).passed_objects(3).misses(1)),
        ];
        for m in 1..4u8 {
            for (what, cfg) in cfgs {
                let first = cfg(Performance::new(map)).try_mode(gen::game_mode(m)).ok().expect("reachable");
                let after = cfg(Performance::new(map).try_mode(gen::game_mode(m)).ok().expect("reachable"));
                let (x, y) = (first.calculate(), after.calculate());
                if !same(&x, &y) {
                    return Some(format!("Performance::new(map).{what}, then switched to mode {m}: differs from switching first and configuring afterwards\n configured, then switched: {x:?}\n switched, then configured: {y:?}"));
                }
            }
        }
    }
    // asking a calculator for its generated state (any number of times) must not change what it calculates
    // afterwards: the same builder, never asked, is the reference
    {
        type Cfg = (&'static str, fn(Performance<'_>) -> Performance<'_>);
        let cfgs: [Cfg; 3] = [("combo(2).misses(1)", |p| p.combo(2).misses(1)), ("combo(1).accuracy(90)", |p| p.combo(1).accuracy(90.0)), ("n100(1).combo(3)", |p| p.n100(1).combo(3))];
        let modes: Vec<u8> = if map.mode == rosu_pp::model::mode::GameMode::Osu { vec![0, 1, 2, 3] } else { vec![gen::mode_num(map.mode)] };
        for m in modes {
            for (what, cfg) in cfgs {
                let mk = || cfg(Performance::new(map).try_mode(gen::game_mode(m)).ok().expect("reachable"));
                let fresh = mk().calculate();
                let mut p = mk();
                let (g1, g2) = (p.generate_state(), p.generate_state());
                let after = p.calculate();
                if g1 != g2 || !same(&after, &fresh) {
                    return Some(format!("mode {m}, Performance::new(map).{what}: generate_state() twice, then calculate() — differs from the same builder calculated straight away\n first state : {g1:?}\n second state: {g2:?}\n calculate() afterwards: {after:?}\n calculate() of a builder never asked: {fresh:?}"));
                }
            }
        }
    }
    // a gradual calculator's value at a position must not depend on how the position was reached (single steps, jumps of two,
    // one jump to the end), under mods that switch skills off as well
    {
        let modes: Vec<u8> = if map.mode == rosu_pp::model::mode::GameMode::Osu { vec![0, 1, 2, 3] } else { vec![gen::mode_num(map.mode)] };
        for m in modes {
            for bits in [0u32, settings::AP, settings::RX, settings::HD | settings::HR | settings::DT] {
                let d = Difficulty::new().mods(bits);
                let by_next: Vec<_> = api::gradual(d.clone(), map, m).expect("reachable").collect();
                let mut g = api::gradual(d.clone(), map, m).expect("reachable");
                let mut by_twos = Vec::new();
                while let Some(v) = g.nth(1) {
                    by_twos.push(v);
                }
                for (k, v) in by_twos.iter().enumerate() {
                    if !same(v, &by_next[2 * k + 1]) {
                        return Some(format!("mode {m}, mods bits {bits}: gradual difficulty value #{} reached by nth(1) jumps differs from the one reached by next() steps\n by jumps: {v:?}\n by steps: {:?}", 2 * k + 2, by_next[2 * k + 1]));
                    }
                }
                let end = api::gradual(d, map, m).expect("reachable").last();
                if !same(&end, &by_next.last().cloned()) {
                    return Some(format!("mode {m}, mods bits {bits}: last() of a fresh gradual calculator differs from the last value of next() steps\n last(): {end:?}\n steps : {:?}", by_next.last()));
                }
            }
        }
    }
    None
}

// ------------------------------------------------------------------ (A) hash order

fn factorial(n: usize) -> usize {
    (1..=n).product::<usize>().max(1)
}

fn timing_universe(ctx: &Ctx) {
    // timing sets: k <= 4 uninherited lines with beat lengths from a 4-letter alphabet (one of them rounding to another),
    // gaps from {1000, 2000}, last object at {end, end + 3000}: ties between cumulative durations are frequent
    let bls = ["500", "250", "300", "500.0004"];
    let gaps = [1000u32, 2000];
    let mut cases: Vec<String> = Vec::new();
    for k in 1..=4usize {
        let n_bl = bls.len().pow(k as u32);
        let n_gap = gaps.len().pow(k.saturating_sub(1) as u32);
        for b in 0..n_bl {
            for g in 0..n_gap {
                for tail in [1000u32, 3000, 2000] {
                    let mut t = 0u32;
                    let mut text = String::from("osu file format v14\n\n[General]\nMode: 0\n\n[TimingPoints]\n");
                    let (mut bb, mut gg) = (b, g);
                    for i in 0..k {
                        text.push_str(&format!("{t},{},4,2,0,60,1,0\n", bls[bb % bls.len()]));
                        bb /= bls.len();
                        if i + 1 < k {
                            t += gaps[gg % gaps.len()];
                            gg /= gaps.len();
                        }
                    }
                    text.push_str(&format!("\n[HitObjects]\n100,100,{},1,0\n", t + tail));
                    cases.push(text);
                }
            }
        }
    }
    ctx.universe("bpm-hash-order", cases.len() as u64, |idx, l| {
        let text = &cases[idx as usize];
        let map = Beatmap::from_bytes(text.as_bytes()).expect("decodes");
        rosu_pp::verif::set_bpm_order(Some(0));
        let base = map.bpm();
        let n = rosu_pp::verif::last_bpm_len();
        if l.want_sample() {
            let mut o = J::obj();
            o.set("universe", J::s("bpm-hash-order"));
            o.set("index", J::i(idx));
            o.set("distinct_beat_lengths", J::i(n as u64));
            o.set("iteration_orders", J::i(factorial(n) as u64));
            o.set("timing_points", J::s(text.lines().filter(|x| x.ends_with(",1,0")).collect::<Vec<_>>().join(" ; ")));
            l.sample(o);
        }
        if n > 1 {
            l.nontrivial();
        }
        l.states(factorial(n) as u64);
        for order in 1..factorial(n) {
            rosu_pp::verif::set_bpm_order(Some(order));
            let v = map.bpm();
            l.checked(1);
            if v.to_bits() != base.to_bits() {
                rosu_pp::verif::set_bpm_order(None);
                l.violation("bpm_iteration_order", || format!("bpm() = {base} under iteration order #0 but {v} under iteration order #{order} of the {n} distinct beat lengths\n--- .osu ---\n{text}"));
                return;
            }
        }
        rosu_pp::verif::set_bpm_order(None);
        // and with the hash map's own order, twice (fresh RandomState per call)
        for _ in 0..2 {
            let v = map.bpm();
            l.checked(1);
            if v.to_bits() != base.to_bits() {
                l.violation("bpm_iteration_order", || format!("bpm() = {base} under a fixed order but {v} under the hash map's own order\n--- .osu ---\n{text}"));
                return;
            }
        }
    });
}

/// The address seam: the helper binary `c01_phase` runs difficulty / strains / performance / gradual on long maps (600
/// sliders, 900- and 1000-object motif maps, the four fixtures, all reachable modes) under every placement phase
/// {0, 8, ..., 56} of its heap buffers modulo 64; all digests must equal those of phase 0. One process per map.
fn address_phase_universe(ctx: &Ctx) {
    if ctx.worker.is_some() {
        return;
    }
    let exe = std::env::current_exe().expect("exe").with_file_name("c01_phase");
    let count: u64 = match std::process::Command::new(&exe).arg("count").output() {
        Ok(o) if o.status.success() => String::from_utf8_lossy(&o.stdout).trim().parse().unwrap_or(0),
        other => {
            ctx.machinery_error(format!("cannot run {}: {other:?}", exe.display()));
            return;
        }
    };
    // (a universe of 7 cases is walked by one thread: run the seven processes side by side first)
    let outputs: Vec<std::io::Result<std::process::Output>> = std::thread::scope(|s| {
        let hs: Vec<_> = (0..count).map(|i| { let exe = &exe; s.spawn(move || std::process::Command::new(exe).arg(i.to_string()).output()) }).collect();
        hs.into_iter().map(|h| h.join().expect("child runner")).collect()
    });
    ctx.universe("address-phase/8-phases-mod-64", count, |idx, l| {
        let o = &outputs[idx as usize];
        let Ok(o) = o else {
            l.ctx.machinery_error(format!("cannot run {} {idx}", exe.display()));
            return;
        };
        let text = String::from_utf8_lossy(&o.stdout).into_owned();
        let done = text.lines().find(|x| x.starts_with("PHASE-DONE"));
        if !o.status.success() || done.is_none() {
            // the subject crashing under a shifted heap is a finding about the subject only if it reproduces: say so
            l.violation("address_phase_crash", || format!("map #{idx}: the run under shifted heap placement ended with {:?} before completing\n{}", o.status, text.chars().take(600).collect::<String>()));
            return;
        }
        let num = |k: &str| done.and_then(|d| d.split('\t').find_map(|w| w.strip_prefix(k))).and_then(|v| v.parse::<u64>().ok()).unwrap_or(0);
        l.states(8);
        l.checked(num("comparisons="));
        l.nontrivial();
        if l.want_sample() {
            let mut s = J::obj();
            s.set("universe", J::s("address-phase/8-phases-mod-64"));
            s.set("index", J::i(idx));
            s.set("comparisons", J::i(num("comparisons=")));
            l.sample(s);
        }
        let nondet: Vec<&str> = text.lines().filter(|x| x.starts_with("PHASE-NONDET")).collect();
        if !nondet.is_empty() {
            l.violation("nondeterministic_on_long_maps", || format!("the same operation on the same map, executed twice in one process under the same heap placement, gives two results:\n{}", nondet.join("\n")));
            return;
        }
        if num("diffs=") > 0 {
            let lines: Vec<&str> = text.lines().filter(|x| x.starts_with("PHASE-DIFF")).collect();
            l.violation("address_dependent", || format!("results depend on where the heap places a buffer (alignment phase modulo 64 of every allocation >= 64 bytes):\n{}", lines.join("\n")));
        }
    });
}

// ------------------------------------------------------------------ (D) decode after a malformed text

/// Every text obtained from a base text by cutting one line of its [Difficulty], [TimingPoints] or [HitObjects] section
/// after one of its delimiters and writing a token that cannot be parsed there (the line ends there, or only that token is
/// replaced); either the rest of the file is kept or the file ends with the broken line.
fn broken_texts(base: &str) -> Vec<String> {
    let lines: Vec<&str> = base.lines().collect();
    let mut out = Vec::new();
    let mut section = "";
    for (li, line) in lines.iter().enumerate() {
        if line.starts_with('[') {
            section = line;
            continue;
        }
        if !matches!(section, "[Difficulty]" | "[TimingPoints]" | "[HitObjects]") || line.is_empty() {
            continue;
        }
        for (pos, ch) in line.char_indices() {
            if !matches!(ch, ',' | '|' | ':') {
                continue;
            }
            let head = lines[..li].join("\n");
            // the line ends after the unparsable token / only that one token is replaced
            let next = line[pos + 1..].find([',', '|', ':']).map_or(line.len(), |n| pos + 1 + n);
            for broken in [format!("{}x", &line[..=pos]), format!("{}x{}", &line[..=pos], &line[next..])] {
                out.push(format!("{head}\n{broken}\n"));
                out.push(format!("{head}\n{broken}\n{}\n", lines[li + 1..].join("\n")));
            }
        }
    }
    out.sort();
    out.dedup();
    out
}

fn decode_after_broken_universe(ctx: &Ctx, world: &World) {
    // base texts: every pool text; the first one also with sliders of several segments appended (a Bezier with a second
    // segment introduced by a letter, one with a doubled anchor and node sounds, a perfect curve)
    let mut bases: Vec<String> = world.texts.clone();
    bases.push(format!(
        "{}100,100,20000,2,0,B|160:40|220:100|L|280:160|330:200,1,300\n100,100,21000,2,0,B|160:40|160:40|220:100|300:100,2,250,2|0|2,0:0|0:0|0:0,0:0:0:0:\n100,100,22000,6,0,P|150:50|200:100,1,120\n",
        world.texts[0]
    ));
    let broken: Vec<String> = bases.iter().flat_map(|b| broken_texts(b)).collect();
    let reference: Vec<String> = bases.iter().map(|t| format!("{:?}", Beatmap::from_bytes(t.as_bytes()).map_err(|e| e.to_string()))).collect();
    ctx.extra("broken_texts", J::i(broken.len() as u64));
    ctx.universe(&format!("decode-after-broken-text/{}texts", broken.len()), broken.len() as u64, |idx, l| {
        let junk = &broken[idx as usize];
        l.states(1);
        l.nontrivial();
        // a thread of its own: whatever a decode leaves behind on its thread is then attributed to this case
        let verdict: Result<Option<String>, ()> = std::thread::scope(|s| {
            s.spawn(|| {
                let first = format!("{:?}", Beatmap::from_bytes(junk.as_bytes()).map_err(|e| e.to_string()));
                for (bi, base) in bases.iter().enumerate() {
                    let by_bytes = format!("{:?}", Beatmap::from_bytes(base.as_bytes()).map_err(|e| e.to_string()));
                    let by_str = format!("{:?}", Beatmap::from_str(base).map_err(|e| e.to_string()));
                    if by_bytes != reference[bi] || by_str != reference[bi] {
                        return Some(format!("decoding well-formed text #{bi} after the broken text gives a different map than decoding it first\n after : {}\n alone : {}", if by_bytes != reference[bi] { by_bytes } else { by_str }, reference[bi]));
                    }
                }
                let again = format!("{:?}", Beatmap::from_bytes(junk.as_bytes()).map_err(|e| e.to_string()));
                (again != first).then(|| format!("decoding the broken text a second time on the same thread gives a different map\n first : {first}\n second: {again}"))
            })
            .join()
            .map_err(|_| ())
        });
        l.checked(2 * bases.len() as u64 + 2);
        if l.want_sample() {
            let mut o = J::obj();
            o.set("universe", J::s("decode-after-broken-text"));
            o.set("index", J::i(idx));
            o.set("broken_line", J::s(junk.lines().find(|x| x.ends_with('x') && x.contains([',', ':'])).unwrap_or("").to_owned()));
            l.sample(o);
        }
        match verdict {
            Err(()) => l.violation("panic", || format!("decoding panicked\nbroken text:\n{junk}")),
            Ok(Some(msg)) => l.violation("decode_history_dependent", || format!("{msg}\nbroken text:\n{junk}")),
            Ok(None) => {}
        }
    });
}

fn main() {
    // fresh-process table mode: `--table` prints "<op index> <digest>" for the op given by --op
    let args: Vec<String> = std::env::args().collect();
    if let Some(p) = args.iter().position(|a| a == "--table-op") {
        let rich = args.iter().any(|a| a == "--rich");
        let world = World::new();
        let ops = all_ops(&world.specs, rich);
        let i: usize = args[p + 1].parse().expect("op index");
        let (d, imp) = world.exec(ops[i]);
        println!("{i} {d} {}", imp.is_some());
        return;
    }

    let ctx = Ctx::from_env_caps("C01", 55, 1500);
    ctx.rule("universe 'bpm-hash-order': every timing set of <= 4 uninherited lines over 4 beat lengths (one rounding onto another) x gap patterns x 3 tail lengths; all k! iteration orders of the k distinct beat lengths through the seam, plus two calls under the hash map's own order; bpm() must be bit-identical. universe 'address-phase': difficulty / strains / performance / gradual on 3 long synthetic maps (600 sliders, 900 and 1000 objects) and the 4 fixtures, all reachable modes, 2 settings, under all 8 placement phases {0,8,..,56} modulo 64 of every heap buffer >= 64 bytes (helper binary with a phase-shifting global allocator): digests must equal those of phase 0. universe 'decode-after-broken-text': every text obtained from the 6 pool texts (and the first with three multi-segment sliders appended) by cutting one line of [Difficulty] / [TimingPoints] / [HitObjects] after any one of its delimiters and putting an unparsable token there (dropping the rest of the line, or replacing only that token), with and without the rest of the file; on a thread of its own: decode it, then every well-formed text via bytes and str (must equal the first-decode reference), then the broken text again (must equal its first decode). universe 'histories': every history (repetitions allowed) of depth <= 3 over the op pool (decode, bpm, convert x 3 entry points, difficulty, strains, performance, gradual difficulty / performance walks for 4 settings incl. Random with and without seed, mania under Invert / HoldOff / both on a map with chords, lock-step walks of two calculators, builder reuse); universe 'builder-histories': per map, configure-then-switch vs switch-then-configure (4 configurations x 3 target modes) and generate_state() twice before calculate() vs a builder never asked (3 configurations x every reachable mode), gradual values reached by next() steps vs nth(1) jumps vs last() under no mod / Autopilot / Relax / HDHRDT on 6 maps; oracle = each op's result digest equals the digest the same op yields as the only op of a fresh process (two fresh processes per op must agree with each other), maps passed by reference unchanged; non-trivial = more than one distinct beat length / history of length >= 2");
    ctx.assume("the fresh-process reference table is produced by this same checker binary started once per op and repetition");

    timing_universe(&ctx);
    address_phase_universe(&ctx);

    let rich = !ctx.quick();
    let world = World::new();
    decode_after_broken_universe(&ctx, &world);
    ctx.universe("builder-histories", world.maps.len() as u64, |idx, l| {
        l.states(1);
        l.nontrivial();
        l.checked(60);
        if let Some(msg) = builder_histories(&world.maps[idx as usize]) {
            l.violation("impure", || format!("map #{idx} = {}\n{msg}", world.specs[idx as usize].describe()));
        }
    });
    let ops = all_ops(&world.specs, rich);
    // reference table from fresh processes (2 per op)
    let exe = std::env::current_exe().expect("exe");
    let mut table: Vec<u64> = Vec::with_capacity(ops.len());
    let results: Vec<(usize, Option<(u64, u64)>)> = {
        let idxs: Vec<usize> = (0..ops.len()).collect();
        let out = std::sync::Mutex::new(Vec::new());
        std::thread::scope(|s| {
            for chunk in idxs.chunks(ops.len().div_ceil(ctx.threads)) {
                let (exe, out) = (&exe, &out);
                s.spawn(move || {
                    for &i in chunk {
                        let run = || {
                            let mut c = std::process::Command::new(exe);
                            c.arg("--table-op").arg(i.to_string());
                            if rich {
                                c.arg("--rich");
                            }
                            c.output().ok().and_then(|o| String::from_utf8_lossy(&o.stdout).split_whitespace().nth(1).and_then(|d| d.parse::<u64>().ok()))
                        };
                        let r = match (run(), run()) {
                            (Some(a), Some(b)) => Some((a, b)),
                            _ => None,
                        };
                        out.lock().unwrap().push((i, r));
                    }
                });
            }
        });
        let mut v = out.into_inner().unwrap();
        v.sort_by_key(|x| x.0);
        v
    };
    let mut table_ok = true;
    for (i, r) in &results {
        match r {
            None => {
                // the subject (not the engine) failed: the operation panicked or aborted in a fresh process
                ctx.add_violation(vh::ctx::Violation { class: "panic".into(), universe: "fresh-process-table".into(), idx: *i as u64, msg: format!("op {:?} did not produce a value as the only operation of a fresh process (panic / abort)", ops[*i]) });
                table_ok = false;
                table.push(0);
            }
            Some((a, b)) => {
                if a != b {
                    ctx.add_violation(vh::ctx::Violation { class: "fresh_processes_disagree".into(), universe: "fresh-process-table".into(), idx: *i as u64, msg: format!("op {:?} yields digest {a:x} in one fresh process and {b:x} in another (address / hash-seed dependence)", ops[*i]) });
                }
                table.push(*a);
            }
        }
    }
    ctx.add_counts(ops.len() as u64 * 2, ops.len() as u64 * 2, ops.len() as u64, 0);
    ctx.extra("ops_in_pool", J::i(ops.len() as u64));

    if table_ok {
        let n = ops.len() as u64;
        let depth = 3u32;
        let total: u64 = (1..=depth).map(|k| n.pow(k)).sum();
        let name = format!("histories/{}ops/depth<={depth}", ops.len());
        ctx.universe(&name, total, |mut idx, l: &mut Local<'_>| {
            let mut len = 1u32;
            loop {
                let c = n.pow(len);
                if idx < c {
                    break;
                }
                idx -= c;
                len += 1;
            }
            let mut hist = Vec::with_capacity(len as usize);
            for _ in 0..len {
                hist.push(ops[(idx % n) as usize]);
                idx /= n;
            }
            if l.want_sample() {
                let mut o = J::obj();
                o.set("universe", J::s(name.clone()));
                o.set("index", J::i(l.idx));
                o.set("history", J::s(format!("{hist:?}")));
                l.sample(o);
            }
            if len > 1 {
                l.nontrivial();
            }
            l.states(1);
            for (step, op) in hist.iter().enumerate() {
                let (d, imp) = world.exec(*op);
                l.checked(1);
                if let Some(msg) = imp {
                    l.violation("impure", || format!("history={hist:?}\nstep {step}: {msg}"));
                    return;
                }
                let oi = ops.iter().position(|o| o == op).expect("op in pool");
                if d != table[oi] {
                    l.violation("history_dependent", || {
                        format!("history={hist:?}\nstep {step}: op {op:?} yields digest {d:x} here but {:x} as the only op of a fresh process\nmap #{} = {}", table[oi], op.text, world.specs[op.text as usize].describe())
                    });
                    return;
                }
            }
        });
    }
    ctx.finish();
}
