//! C08 — results do not depend on how equivalent settings are expressed.

use rosu_pp::{
    any::{DifficultyAttributes, PerformanceAttributes, Strains},
    model::mods::rosu_mods::{
        generated_mods::{
            DaycoreCatch, DaycoreMania, DaycoreOsu, DaycoreTaiko, NightcoreCatch, NightcoreMania, NightcoreOsu, NightcoreTaiko,
        },
        GameMod, GameMode as ModsMode, GameMods as LazerMods, GameModsIntermode, GameModsLegacy,
    },
    Beatmap, Difficulty, GameMods, Performance,
};
use vh::{
    api,
    cmp::same,
    gen::{self, Kind, MapSpec, ModeCfg, Obj, PosK, MODE_CFGS},
    json::J,
    settings::{self, ModSpec},
    Ctx, Local,
};

fn mods_mode(m: u8) -> ModsMode {
    match m {
        0 => ModsMode::Osu,
        1 => ModsMode::Taiko,
        2 => ModsMode::Catch,
        _ => ModsMode::Mania,
    }
}

/// A pool of small maps per native mode.
fn pool(src: u8, rich: bool) -> Vec<MapSpec> {
    let o = |k, gap, pos, sound, col| Obj { kind: k, gap, pos, sound, col };
    let mut v = Vec::new();
    if src == 3 {
        v.push(MapSpec::new(3, vec![o(Kind::Circle, 0, PosK::Same, 0, 0), o(Kind::Hold(300), 150, PosK::Same, 0, 2), o(Kind::Circle, 150, PosK::Same, 0, 1), o(Kind::Circle, 100, PosK::Same, 0, 0)]));
        v.push(MapSpec::new(3, vec![o(Kind::Hold(100), 0, PosK::Same, 0, 0), o(Kind::Hold(1000), 0, PosK::Same, 0, 2), o(Kind::Circle, 400, PosK::Same, 0, 0)]));
        if rich {
            v.push(MapSpec { keys: 7, ..MapSpec::new(3, vec![o(Kind::Circle, 0, PosK::Same, 0, 0), o(Kind::Circle, 90, PosK::Same, 0, 2), o(Kind::Circle, 90, PosK::Same, 0, 0), o(Kind::Hold(300), 90, PosK::Same, 0, 2), o(Kind::Circle, 90, PosK::Same, 0, 1)]) });
        }
    } else {
        v.push(MapSpec::new(src, vec![o(Kind::Circle, 0, PosK::Same, 0, 0), o(Kind::Slider2, 150, PosK::Far, 8, 0), o(Kind::Circle, 400, PosK::Far, 0, 0), o(Kind::Spinner(600), 150, PosK::Same, 0, 0), o(Kind::Circle, 1000, PosK::Far, 2, 0)]));
        v.push(MapSpec::new(src, vec![o(Kind::SliderLong, 0, PosK::Same, 0, 0), o(Kind::Circle, 600, PosK::Near, 0, 0), o(Kind::Circle, 100, PosK::Far, 8, 0), o(Kind::Circle, 100, PosK::Far, 0, 0)]));
        // a rhythm with changing intervals and colours (taiko's rhythm skill looks at interval ratios against the hit window)
        v.push(MapSpec::new(src, [200u32, 100, 100, 200, 400, 100, 200, 100, 100, 300, 150, 150, 75, 75, 300].iter().enumerate().map(|(i, g)| o(Kind::Circle, if i == 0 { 0 } else { *g }, PosK::Far, if i % 3 == 0 { 8 } else { 0 }, 0)).collect()));
        // same-spot objects around the stacking threshold (approach time x stack leniency), and closer than the approach time
        for g in [300u32, 450, 600, 750, 900, 1200] {
            v.push(MapSpec::new(src, vec![o(Kind::Circle, 0, PosK::Same, 0, 0), o(Kind::Circle, g, PosK::Same, 0, 0), o(Kind::Slider2, g, PosK::Same, 0, 0), o(Kind::Circle, g / 2, PosK::Near, 0, 0)]));
        }
        if rich {
            v.push(MapSpec { diff: gen::DiffPreset::D2, timing: gen::Timing::T1, ..MapSpec::new(src, vec![o(Kind::Circle, 0, PosK::Same, 0, 0), o(Kind::Buzz, 150, PosK::Far, 0, 0), o(Kind::Circle, 300, PosK::Far, 4, 0), o(Kind::Slider1, 150, PosK::Far, 0, 0)]) });
            v.push(MapSpec { diff: gen::DiffPreset::D1, ..MapSpec::new(src, vec![o(Kind::Circle, 0, PosK::Same, 0, 0), o(Kind::Circle, 150, PosK::Same, 0, 0), o(Kind::Circle, 150, PosK::Far, 0, 0)]) });
        }
    }
    v
}

#[derive(Clone)]
struct Results {
    diff: DifficultyAttributes,
    strains: Strains,
    perfs: Vec<PerformanceAttributes>,
}

fn run(mods: GameMods, extra: &dyn Fn(Difficulty) -> Difficulty, map: &Beatmap, dst: u8) -> Results {
    let d = extra(Difficulty::new().mods(mods));
    let diff = api::difficulty(&d, map, dst).expect("convertible");
    let strains = api::strains(&d, map, dst).expect("convertible");
    let base = || {
        let p = Performance::new(map).difficulty(d.clone());
        if map.mode as u8 == dst { p } else { p.try_mode(gen::game_mode(dst)).ok().expect("convertible") }
    };
    let perfs = vec![base().calculate(), base().accuracy(96.5).misses(1).calculate(), base().n100(1).combo(2).calculate()];
    Results { diff, strains, perfs }
}

fn differ(a: &Results, b: &Results) -> Option<String> {
    if !same(&a.diff, &b.diff) {
        return Some(format!("difficulty differs\n A: {:?}\n B: {:?}", a.diff, b.diff));
    }
    if !same(&a.strains, &b.strains) {
        return Some("strains differ".into());
    }
    for (x, y) in a.perfs.iter().zip(&b.perfs) {
        if !same(x, y) {
            return Some(format!("performance differs\n A: {x:?}\n B: {y:?}"));
        }
    }
    None
}

const TWELVE: [u32; 12] = [settings::NF, settings::EZ, settings::TD, settings::HD, settings::HR, settings::DT, settings::NC, settings::HT, settings::FL, settings::SO, settings::RX, settings::AP];

fn main() {
    let ctx = Ctx::from_env("C08");
    ctx.rule("universes: (a) every subset of {NF EZ TD HD HR DT NC HT FL SO RX AP} that rosu-mods' incompatibility table accepts (NC implies the DT bit, as the game writes it) [x key mods for mania] in up to five representations (u32, GameModsLegacy, GameModsIntermode, &GameModsIntermode, lazer GameMods via try_with_mode when every mod exists for the mode) on a pool of maps per mode configuration; (b) lazer DT/HT/NC/DC speed_change on a 0.01 grid over [0.5,2] and at 5 rates off that grid (1.375, 0.625, 1.2345, 1.005, 0.7549) vs the same mods with clock_rate(r), and vs the legacy DT/HT bit (+FL+HD) with clock_rate(r); pool incl. same-spot objects at 6 gaps around the stack threshold; (c) lazer DifficultyAdjust AR/CS/HP/OD on a 0.1 grid over [0,11] vs Difficulty::ar/cs/hp/od(v,false); oracle = exact equality of difficulty, strains and 3 performance results; non-trivial = stars > 0");

    let rich = !ctx.quick();
    for cfg in MODE_CFGS.iter() {
        let maps: Vec<(MapSpec, Beatmap)> = pool(cfg.src, rich).into_iter().map(|s| { let m = s.decode(); (s, m) }).collect();
        let keysets: Vec<u32> = if cfg.dst == 3 { if rich { vec![0, settings::KEY4, settings::KEY7, settings::KEY1, settings::KEY9, settings::KEY2, settings::KEY3, settings::KEY1 | 1 << 20, settings::KEY9 | 1 << 23, settings::KEY3 | 1 << 22, settings::KEY2 | 1 << 21] } else { vec![0, settings::KEY4, settings::KEY2, settings::KEY1 | 1 << 20, settings::KEY9 | 1 << 23] } } else { vec![0] };
        let total = 4096 * keysets.len() as u64 * maps.len() as u64;
        let name = format!("mod-subsets/{}to{}", cfg.src, cfg.dst);
        ctx.universe(&name, total, |idx, l: &mut Local<'_>| {
            let mi = (idx % maps.len() as u64) as usize;
            let r = idx / maps.len() as u64;
            let ks = keysets[(r % keysets.len() as u64) as usize];
            let subset = r / keysets.len() as u64;
            let mut bits = ks;
            for (k, b) in TWELVE.iter().enumerate() {
                if subset >> k & 1 == 1 {
                    bits |= b;
                }
            }
            if bits & settings::NC != 0 {
                bits |= settings::DT;
            }
            let (spec, map) = &maps[mi];
            let id = |d: Difficulty| d;
            // only combinations the game accepts: validity is judged by rosu-mods' incompatibility table on the osu! variants
            // (all twelve exist there); e.g. DT+HT, EZ+HR, RX+AP are skipped
            let twelve_only = GameModsIntermode::from_bits(bits & !ks);
            let valid = twelve_only.try_with_mode(ModsMode::Osu).is_some_and(|m| m.is_valid());
            if !valid {
                return;
            }
            let base = run(GameMods::from(bits), &id, map, cfg.dst);
            if base.diff.stars() > 0.0 {
                l.nontrivial();
            }
            l.states(1);
            let legacy = GameModsLegacy::from_bits(bits);
            let inter = GameModsIntermode::from_bits(bits);
            let mut reps: Vec<(&str, GameMods)> = vec![
                ("GameModsLegacy", GameMods::from(legacy)),
                ("GameModsIntermode", GameMods::from(inter.clone())),
                ("&GameModsIntermode", GameMods::from(&inter)),
            ];
            if let Some(lz) = inter.try_with_mode(mods_mode(cfg.dst)) {
                reps.push(("lazer GameMods (try_with_mode)", GameMods::from(lz)));
            }
            if l.want_sample() {
                let mut o = J::obj();
                o.set("universe", J::s(name.clone()));
                o.set("index", J::i(idx));
                o.set("bits", J::i(bits));
                o.set("mods", J::s(format!("{inter}")));
                o.set("representations", J::i(reps.len() as u64 + 1));
                o.set("map_spec", J::s(spec.describe()));
                l.sample(o);
            }
            // under the default origin and with lazer(false) (the origin flag must act the same on every representation)
            let stable = |d: Difficulty| d.lazer(false);
            let base_stable = run(GameMods::from(bits), &stable, map, cfg.dst);
            for (rname, mods) in reps {
                let other = run(mods.clone(), &id, map, cfg.dst);
                let other_stable = run(mods, &stable, map, cfg.dst);
                l.checked(10);
                if let Some(msg) = differ(&base, &other).or_else(|| differ(&base_stable, &other_stable).map(|m| format!("with lazer(false): {m}"))) {
                    let class = format!("repr_{}", rname.split_whitespace().next().unwrap_or("").trim_start_matches('&').to_lowercase());
                    l.violation(&class, || format!("cfg={cfg:?} bits={bits} ({inter})\nu32 vs {rname}: {msg}\nspec={}\n--- .osu ---\n{}", spec.describe(), spec.text()));
                    return;
                }
            }
        });

        // (a') mods without a legacy bit next to legacy mods that occupy two bits: mode-less by value, by reference, and lazer
        if cfg.dst == 3 || cfg.dst == 0 {
            let sets: Vec<&str> = if cfg.dst == 3 { vec!["HO", "IN", "NCHO", "PFHO", "DTHO", "NCIN", "NCPFHO", "SDHO", "HTIN", "NCPFIN", "MR", "NCMR", "4KHO", "NC7KIN", "CL", "CLHD", "CLNC"] } else { vec!["CL", "CLHD", "CLHR", "CLNC", "CLPFDT", "MR", "MRHR", "TC", "CLTC"] };
            let name = format!("intermode-non-legacy/{}to{}", cfg.src, cfg.dst);
            ctx.universe(&name, (sets.len() * maps.len()) as u64, |idx, l: &mut Local<'_>| {
                let (spec, map) = &maps[idx as usize % maps.len()];
                let acr = sets[idx as usize / maps.len()];
                let im = GameModsIntermode::from_acronyms(acr);
                let by_value = run(GameMods::from(im.clone()), &|d| d, map, cfg.dst);
                let by_ref = run(GameMods::from(&im), &|d| d, map, cfg.dst);
                l.states(1);
                l.checked(10);
                if by_value.diff.stars() > 0.0 {
                    l.nontrivial();
                }
                if let Some(msg) = differ(&by_value, &by_ref) {
                    l.violation("repr_intermode_ref_non_legacy", || format!("cfg={cfg:?} mods {acr}: GameModsIntermode by value vs by reference: {msg}\nspec={}\n--- .osu ---\n{}", spec.describe(), spec.text()));
                    return;
                }
                if let Some(lz) = im.try_with_mode(mods_mode(cfg.dst)) {
                    let lazer = run(GameMods::from(lz), &|d| d, map, cfg.dst);
                    l.checked(5);
                    if let Some(msg) = differ(&by_value, &lazer) {
                        l.violation("repr_lazer_non_legacy", || format!("cfg={cfg:?} mods {acr}: GameModsIntermode vs the same mods as lazer mods: {msg}\nspec={}\n--- .osu ---\n{}", spec.describe(), spec.text()));
                    }
                }
            });
        }

        // (b) rate mods
        // the 0.01 grid of the in-game slider, plus rates off that grid (the API takes any number, e.g. from a score's JSON)
        let grid: Vec<f64> = (50..=200).map(|i| f64::from(i) / 100.0).chain([1.375, 0.625, 1.2345, 1.005, 0.7549]).collect();
        let total = grid.len() as u64 * 3 * maps.len() as u64;
        let name = format!("lazer-rate/{}to{}", cfg.src, cfg.dst);
        ctx.universe(&name, total, |idx, l: &mut Local<'_>| {
            let mi = (idx % maps.len() as u64) as usize;
            let r = idx / maps.len() as u64;
            let kind = r % 3;
            let rate = grid[(r / 3) as usize];
            let (spec, map) = &maps[mi];
            let mode = gen::game_mode(cfg.dst);
            let sc = Some(rate);
            let (kname, mods): (&str, GameMods) = match kind {
                0 => ("DT/HT", ModSpec::Rate(rate).build(mode)),
                1 => {
                    let mut lz = LazerMods::new();
                    lz.insert(match cfg.dst {
                        0 => GameMod::NightcoreOsu(NightcoreOsu { speed_change: sc }),
                        1 => GameMod::NightcoreTaiko(NightcoreTaiko { speed_change: sc }),
                        2 => GameMod::NightcoreCatch(NightcoreCatch { speed_change: sc }),
                        _ => GameMod::NightcoreMania(NightcoreMania { speed_change: sc }),
                    });
                    ("NC", GameMods::from(lz))
                }
                _ => {
                    let mut lz = LazerMods::new();
                    lz.insert(match cfg.dst {
                        0 => GameMod::DaycoreOsu(DaycoreOsu { speed_change: sc }),
                        1 => GameMod::DaycoreTaiko(DaycoreTaiko { speed_change: sc }),
                        2 => GameMod::DaycoreCatch(DaycoreCatch { speed_change: sc }),
                        _ => GameMod::DaycoreMania(DaycoreMania { speed_change: sc }),
                    });
                    ("DC", GameMods::from(lz))
                }
            };
            // the reference keeps the same mods value but pins the rate explicitly, and a second reference has no mods at all
            let a = run(mods.clone(), &|d| d, map, cfg.dst);
            let b = run(mods, &|d| d.clock_rate(rate), map, cfg.dst);
            l.states(1);
            l.checked(5);
            if a.diff.stars() > 0.0 {
                l.nontrivial();
            }
            if let Some(msg) = differ(&a, &b) {
                l.violation(&format!("rate_{}", kname.replace('/', "").to_lowercase()), || {
                    format!("cfg={cfg:?} lazer {kname} speed_change={rate} vs the same mods with clock_rate({rate}): {msg}\nspec={}\n--- .osu ---\n{}", spec.describe(), spec.text())
                });
                return;
            }
            // the plain (legacy) rate mod at its default speed with the rate pinned explicitly: the explicit clock rate wins
            // everywhere (the mods' own rate must not leak into anything)
            if kind == 0 && rate != 1.0 {
                let bit = if rate > 1.0 { settings::DT } else { settings::HT };
                for extra_bits in [0, settings::FL | settings::HD] {
                    let lz = {
                        use rosu_pp::model::mods::rosu_mods::generated_mods::{DoubleTimeCatch, DoubleTimeMania, DoubleTimeOsu, DoubleTimeTaiko, HalfTimeCatch, HalfTimeMania, HalfTimeOsu, HalfTimeTaiko};
                        let Some(mut m) = GameModsIntermode::from_bits(extra_bits).try_with_mode(mods_mode(cfg.dst)) else { continue };
                        m.insert(match (cfg.dst, rate > 1.0) {
                            (0, true) => GameMod::DoubleTimeOsu(DoubleTimeOsu { speed_change: sc, ..Default::default() }),
                            (1, true) => GameMod::DoubleTimeTaiko(DoubleTimeTaiko { speed_change: sc, ..Default::default() }),
                            (2, true) => GameMod::DoubleTimeCatch(DoubleTimeCatch { speed_change: sc, ..Default::default() }),
                            (_, true) => GameMod::DoubleTimeMania(DoubleTimeMania { speed_change: sc, ..Default::default() }),
                            (0, false) => GameMod::HalfTimeOsu(HalfTimeOsu { speed_change: sc, ..Default::default() }),
                            (1, false) => GameMod::HalfTimeTaiko(HalfTimeTaiko { speed_change: sc, ..Default::default() }),
                            (2, false) => GameMod::HalfTimeCatch(HalfTimeCatch { speed_change: sc, ..Default::default() }),
                            (_, false) => GameMod::HalfTimeMania(HalfTimeMania { speed_change: sc, ..Default::default() }),
                        });
                        GameMods::from(m)
                    };
                    let c = run(lz, &|d| d, map, cfg.dst);
                    let e = run(GameMods::from(bit | extra_bits), &|d| d.clock_rate(rate), map, cfg.dst);
                    l.checked(10);
                    if let Some(msg) = differ(&c, &e) {
                        l.violation("rate_legacy_plus_clock_rate", || {
                            format!("cfg={cfg:?} lazer DT/HT speed_change={rate} (+ mods bits {extra_bits}) vs legacy bits {} with clock_rate({rate}): {msg}\nspec={}\n--- .osu ---\n{}", bit | extra_bits, spec.describe(), spec.text())
                        });
                        return;
                    }
                }
            }
        });

        // (c) DifficultyAdjust
        // 0.1 steps over [0, 11], plus the extended-limits range of DifficultyAdjust (AR down to -10) in 0.5 steps
        let mut grid: Vec<f64> = (0..=110).map(|i| f64::from(i) / 10.0).collect();
        grid.extend((-20..0).map(|i| f64::from(i) / 2.0));
        let total = grid.len() as u64 * 4 * maps.len() as u64;
        let name = format!("lazer-da/{}to{}", cfg.src, cfg.dst);
        ctx.universe(&name, total, |idx, l: &mut Local<'_>| {
            let mi = (idx % maps.len() as u64) as usize;
            let r = idx / maps.len() as u64;
            let attr = r % 4;
            let v = grid[(r / 4) as usize];
            let (spec, map) = &maps[mi];
            let mode = gen::game_mode(cfg.dst);
            // taiko / mania DifficultyAdjust have no AR / CS
            if (cfg.dst == 1 || cfg.dst == 3) && attr < 2 {
                return;
            }
            let da = match attr {
                0 => ModSpec::Da(Some(v), None, None, None),
                1 => ModSpec::Da(None, Some(v), None, None),
                2 => ModSpec::Da(None, None, Some(v), None),
                _ => ModSpec::Da(None, None, None, Some(v)),
            };
            let a = run(da.build(mode), &|d| d, map, cfg.dst);
            let vf = v as f32;
            let b = run(GameMods::default(), &|d| match attr {
                0 => d.ar(vf, false),
                1 => d.cs(vf, false),
                2 => d.hp(vf, false),
                _ => d.od(vf, false),
            }, map, cfg.dst);
            // the same next to HardRock / Easy / HardRock + Hidden: in lazer form with the DifficultyAdjust vs as bits with the
            // override (a DifficultyAdjust must not switch anything else of the other mods off)
            for bits in [settings::HR, settings::EZ, settings::HR | settings::HD] {
                let (ar, cs, hp, od) = match attr {
                    0 => (Some(v), None, None, None),
                    1 => (None, Some(v), None, None),
                    2 => (None, None, Some(v), None),
                    _ => (None, None, None, Some(v)),
                };
                let a2 = run(ModSpec::DaPlus(bits, ar, cs, hp, od).build(mode), &|d| d, map, cfg.dst);
                let b2 = run(GameMods::from(bits), &|d| match attr {
                    0 => d.ar(vf, false),
                    1 => d.cs(vf, false),
                    2 => d.hp(vf, false),
                    _ => d.od(vf, false),
                }, map, cfg.dst);
                l.checked(10);
                if let Some(msg) = differ(&a2, &b2) {
                    l.violation("da_next_to_other_mods", || format!("cfg={cfg:?} lazer mods [bits {bits} + DifficultyAdjust attr#{attr}={v}] vs bits {bits} with the Difficulty override: {msg}\nspec={}\n--- .osu ---\n{}", spec.describe(), spec.text()));
                    return;
                }
            }
            l.states(1);
            l.checked(5);
            if a.diff.stars() > 0.0 {
                l.nontrivial();
            }
            if let Some(msg) = differ(&a, &b) {
                let an = ["ar", "cs", "hp", "od"][attr as usize];
                l.violation(&format!("da_{an}"), || {
                    format!("cfg={cfg:?} lazer DifficultyAdjust {an}={v} vs Difficulty::{an}({v}, false): {msg}\nspec={}\n--- .osu ---\n{}", spec.describe(), spec.text())
                });
            }
        });
    }
    let _ = ModeCfg { src: 0, dst: 0 };
    ctx.finish();
}
