//! C03 — gradual performance equals performance of the partial play.
//!
//! E2 explicit-state exploration over histories of next/nth/last with score states chosen from a
//! menu per step; every step's result is compared with the one-shot Performance for the reference
//! position; key = position (the property says the future depends on nothing else).

use rosu_pp::{
    any::{DifficultyAttributes, PerformanceAttributes, ScoreState},
    Beatmap, Difficulty, Performance,
};
use vh::{
    api,
    cmp::{canon, same_opt},
    explore::{self, Model, Outcome},
    gen::{self, Alphabet, Kind, MapSpec, ModeCfg, PosK, MODE_CFGS},
    json::J,
    settings::{self, ModSpec, Setting},
    Ctx, Local,
};

#[derive(Clone, Debug, PartialEq)]
enum Adv {
    Next,
    Nth(usize),
    Last,
}

#[derive(Clone, Debug, PartialEq)]
struct Op {
    adv: Adv,
    state: u8,
}

const N_STATES: u8 = 7;

/// Score state menu, derived from the difficulty attributes of the prefix.
fn state_for(id: u8, prefix: &DifficultyAttributes, pos: u32) -> ScoreState {
    let mc = prefix.max_combo();
    let (n_obj, lt, ns) = match prefix {
        DifficultyAttributes::Osu(a) => (a.n_objects(), a.n_large_ticks, a.n_sliders),
        DifficultyAttributes::Taiko(a) => (a.max_combo, 0, 0),
        DifficultyAttributes::Catch(a) => (a.n_fruits, 0, 0),
        DifficultyAttributes::Mania(a) => (a.n_objects, 0, a.n_hold_notes),
    };
    let (drops, tiny) = match prefix {
        DifficultyAttributes::Catch(a) => (a.n_droplets, a.n_tiny_droplets),
        _ => (0, 0),
    };
    match id {
        // nothing hit yet
        0 => ScoreState::new(),
        // SS of the prefix
        1 => ScoreState {
            max_combo: mc,
            osu_large_tick_hits: lt,
            osu_small_tick_hits: ns,
            slider_end_hits: ns,
            n300: n_obj,
            n100: drops,
            n50: tiny,
            ..ScoreState::new()
        },
        // all misses
        2 => ScoreState { misses: pos, ..ScoreState::new() },
        // over-counts
        3 => ScoreState {
            max_combo: mc + 5,
            osu_large_tick_hits: lt + 2,
            osu_small_tick_hits: ns + 2,
            slider_end_hits: ns + 2,
            n_geki: 1,
            n_katu: 1,
            n300: n_obj + 3,
            n100: 2,
            n50: 1,
            misses: 1,
        },
        // mixed, half combo
        4 => ScoreState {
            max_combo: mc / 2,
            osu_large_tick_hits: lt / 2,
            slider_end_hits: ns / 2,
            n300: n_obj - n_obj / 2,
            n100: n_obj / 2,
            ..ScoreState::new()
        },
        // only the worst results
        5 => ScoreState { max_combo: 1, n50: n_obj, n_katu: 1, ..ScoreState::new() },
        // mania-flavoured: gekis and katus
        _ => ScoreState { max_combo: mc, n_geki: n_obj / 2 + 1, n_katu: n_obj / 2, n100: 1, ..ScoreState::new() },
    }
}

struct GpModel<'a> {
    map: &'a Beatmap,
    cfg: ModeCfg,
    d: Difficulty,
    total: usize,
    /// difficulty attributes of every prefix (index = position), from the one-shot calculator
    prefixes: Vec<DifficultyAttributes>,
}

impl GpModel<'_> {
    fn one_shot(&self, pos: usize, s: &ScoreState) -> PerformanceAttributes {
        let mut p = Performance::new(self.map).difficulty(self.d.clone());
        if self.cfg.src != self.cfg.dst {
            p = p.try_mode(gen::game_mode(self.cfg.dst)).ok().expect("convertible");
        }
        p.passed_objects(pos as u32).state(s.clone()).calculate()
    }
}

impl Model for GpModel<'_> {
    type Op = Op;
    type Key = (usize, u8);

    fn ops(&self, _: &[Op]) -> Vec<Op> {
        let mut v = Vec::new();
        for adv in [Adv::Next, Adv::Nth(1), Adv::Nth(2), Adv::Nth(self.total), Adv::Last] {
            for state in 0..N_STATES {
                v.push(Op { adv: adv.clone(), state });
            }
        }
        v
    }

    fn run(&self, hist: &[Op]) -> Outcome<(usize, u8)> {
        let mut g = api::gradual_perf(self.d.clone(), self.map, self.cfg.dst).expect("convertible");
        let n = self.total;
        let mut p = 0usize;
        let mut after = 0u8;
        let mut checked = 0;
        let mut obs = String::new();
        for (step, op) in hist.iter().enumerate() {
            if p >= n {
                after = after.saturating_add(1);
            }
            let k = match op.adv {
                Adv::Next => 0,
                Adv::Nth(k) => k,
                Adv::Last => usize::MAX,
            };
            let np = if p < n { p.saturating_add(k).saturating_add(1).min(n) } else { n };
            let st = state_for(op.state, &self.prefixes[np], np as u32);
            let got = match op.adv {
                Adv::Next => g.next(st.clone()),
                Adv::Nth(k) => g.nth(st.clone(), k),
                Adv::Last => g.last(st.clone()),
            };
            let is_last = step + 1 == hist.len();
            if is_last {
                // earlier steps were compared when their own (shorter) history was explored
                let want = if p < n { Some(self.one_shot(np, &st)) } else { None };
                checked += 1;
                if !same_opt(&got, &want) {
                    return Outcome {
                        key: None,
                        obs: String::new(),
                        verdict: Some(format!(
                            "step {step} {op:?}: position {p} -> {np} of {n}, state={st:?}\n gradual : {}\n one-shot: {}",
                            canon(&format!("{got:?}")),
                            canon(&format!("{want:?}"))
                        )),
                        checked,
                    };
                }
                checked += 1;
                if g.len() != n - np {
                    return Outcome {
                        key: None,
                        obs: String::new(),
                        verdict: Some(format!("step {step} {op:?}: len() afterwards = {} but expected {}", g.len(), n - np)),
                        checked,
                    };
                }
                obs = format!("len={}", g.len());
            }
            p = np;
        }
        let key = if after > 1 { None } else { Some((p, after)) };
        Outcome { key, obs, verdict: None, checked }
    }
}

fn settings_menu(dst: u8, rich: bool) -> Vec<Setting> {
    let mut v = vec![
        Setting::nm(),
        Setting::bits(settings::HD | settings::HR | settings::DT),
        Setting { lazer: Some(false), ..Setting::nm() },
        Setting::mods(ModSpec::Classic(None)),
        Setting { rate: Some(1.2), od: Some((9.1, false)), ..Setting::nm() },
    ];
    // a Difficulty that itself carries passed_objects(2): whatever the calculator then covers, every step must still equal the
    // one-shot calculation of the reached prefix
    v.push(Setting { passed: Some(2), ..Setting::nm() });
    // mods that switch skills or formulas off
    if dst <= 1 {
        v.push(Setting::bits(settings::RX));
    }
    if dst == 0 {
        v.push(Setting::bits(settings::AP));
    }
    if dst == 3 {
        v.push(Setting::mods(ModSpec::HoIn(None)));
        v.push(Setting::mods(ModSpec::Invert));
    }
    if dst == 2 {
        // an explicit override that disagrees with the mods, both ways
        v.push(Setting { hr_offsets: Some(true), ..Setting::nm() });
        v.push(Setting { hr_offsets: Some(false), ..Setting::bits(settings::HR) });
    }
    if rich {
        v.push(Setting::bits(settings::EZ | settings::HT));
        v.push(Setting { lazer: Some(false), ..Setting::mods(ModSpec::Classic(None)) });
        v.push(Setting::mods(ModSpec::Classic(Some(false))));
        v.push(Setting { ar: Some((10.0, true)), cs: Some((6.5, false)), hp: Some((3.0, false)), ..Setting::bits(settings::FL) });
        if dst == 3 {
            v.push(Setting::mods(ModSpec::HoldOff));
            v.push(Setting { lazer: Some(false), ..Setting::bits(settings::KEY7) });
        }
    }
    v
}

fn check_case(l: &mut Local<'_>, cfg: ModeCfg, map: &Beatmap, setts: &[Setting], desc: &dyn Fn() -> String) {
    for s in setts {
        let d = s.difficulty(gen::game_mode(cfg.dst));
        let total = api::gradual_perf(d.clone(), map, cfg.dst).expect("convertible").len();
        let prefixes: Vec<DifficultyAttributes> = (0..=total)
            .map(|i| api::difficulty(&d.clone().passed_objects(i as u32), map, cfg.dst).expect("convertible"))
            .collect();
        if total > 0 {
            l.nontrivial();
        }
        let m = GpModel { map, cfg, d, total, prefixes };
        let (st, f) = explore::bfs(&m, total + 3);
        l.states(st.states);
        l.checked(st.checked);
        if let Some(f) = f {
            let class = format!("{}to{}", cfg.src, cfg.dst);
            l.violation(&class, || format!("{}\nsetting={s:?}\nhistory={:?}\n{}", desc(), f.hist, f.msg));
            return;
        }
    }
}

fn main() {
    let ctx = Ctx::from_env_caps("C03", 55, 1500);
    ctx.rule("case = (mode configuration, grammar map); per case and setting a BFS over all histories of {next, nth(1), nth(2), nth(N), last} x 7 score states (zero, SS of the prefix, all misses, over-counts, half, worst-only, geki/katu) on a fresh gradual performance calculator; settings menu incl. lazer(false), Classic, rate + OD override, HoldOff / Invert (mania), hardrock_offsets overrides that contradict the mods (catch); every step compared with Performance::new(&map).difficulty(d)[.try_mode].passed_objects(pos).state(s).calculate(); key = (position, calls after exhaustion <= 1); non-trivial = map yields at least one value");
    ctx.assume("score states come from the 7-entry menu evaluated on the reached prefix; continuous settings are those of the menu");

    // periodic longer maps first (cheap): every motif of <= 2 objects (stacked and far, with hit sounds) repeated 5 times
    for mu in vh::uni::motif_universes(&MODE_CFGS, ctx.pick(2u32, 3), 5, false).into_iter().chain(vh::uni::rhythm_universes(&MODE_CFGS, 3, 3)) {
        let setts = [Setting::nm(), Setting { lazer: Some(false), ..Setting::bits(settings::HD | settings::HR | settings::DT) }];
        ctx.universe(&mu.name, mu.total, |idx, l| {
            let spec = mu.spec(idx);
            let map = spec.decode();
            check_case(l, mu.cfg, &map, &setts, &|| format!("cfg={:?}\nspec={}\n--- .osu ---\n{}", mu.cfg, spec.describe(), spec.text()));
        });
    }
    // marathon maps: a hard opening (40 notes 100 ms apart) and an easy tail of 1080 notes 400 ms apart — more than 1024
    // strain sections, the decisive peaks are the oldest ones (anything that keeps only "recent" or "enough" peaks per step
    // shows here and nowhere else). One walk by next() compared at checkpoints, plus nth / last jumps from a fresh calculator.
    {
        let cfgs: Vec<ModeCfg> = MODE_CFGS.to_vec();
        ctx.universe("marathon/40-fast+1080-slow/checkpoints", cfgs.len() as u64, |idx, l| {
            use std::fmt::Write as _;
            let cfg = cfgs[idx as usize];
            let mut t = format!("osu file format v14\n\n[General]\nMode: {}\n\n[Difficulty]\nHPDrainRate:5\nCircleSize:4\nOverallDifficulty:7\nApproachRate:8\nSliderMultiplier:1.4\nSliderTickRate:1\n\n[TimingPoints]\n0,400,4,2,0,60,1,0\n\n[HitObjects]\n", cfg.src);
            let mut time = 1000;
            for i in 0..1120u32 {
                let _ = writeln!(t, "{},192,{time},1,{},0:0:0:0:", [64, 448, 192, 320][(i % 4) as usize], if i % 3 == 0 { 8 } else { 0 });
                time += if i < 40 { 100 } else { 400 };
            }
            let map = Beatmap::from_bytes(t.as_bytes()).expect("decodes");
            let d = Setting::nm().difficulty(gen::game_mode(cfg.dst));
            let total = api::gradual_perf(d.clone(), &map, cfg.dst).expect("convertible").len();
            l.nontrivial();
            let one_shot = |pos: usize| {
                let prefix = api::difficulty(&d.clone().passed_objects(pos as u32), &map, cfg.dst).expect("convertible");
                let st = state_for(1, &prefix, pos as u32);
                let mut p = Performance::new(&map).difficulty(d.clone());
                if cfg.src != cfg.dst {
                    p = p.try_mode(gen::game_mode(cfg.dst)).ok().expect("convertible");
                }
                (st.clone(), p.passed_objects(pos as u32).state(st).calculate())
            };
            let checkpoints: Vec<usize> = [30usize, 41, 900, 1064, 1065, 1070, 1100, total].into_iter().filter(|&p| p >= 1 && p <= total).collect();
            let refs: Vec<(usize, ScoreState, PerformanceAttributes)> = checkpoints.iter().map(|&p| { let (s, a) = one_shot(p); (p, s, a) }).collect();
            let fail = |l: &mut Local<'_>, how: &str, pos: usize, got: &Option<PerformanceAttributes>, want: &PerformanceAttributes| {
                let class = format!("{}to{}", cfg.src, cfg.dst);
                l.violation(&class, || format!("marathon map (mode {} file, 40 notes 100 ms apart then 1080 notes 400 ms apart), cfg={cfg:?}, no mods\n{how}: position {pos} of {total}\n gradual : {}\n one-shot: {}", cfg.src, canon(&format!("{got:?}")), canon(&format!("{:?}", Some(want)))));
            };
            // one walk, next() at every step (SS-of-the-prefix state only where compared; zero state elsewhere)
            let mut g = api::gradual_perf(d.clone(), &map, cfg.dst).expect("convertible");
            for pos in 1..=total {
                if let Some((_, st, want)) = refs.iter().find(|r| r.0 == pos) {
                    let got = g.next(st.clone());
                    l.checked(1);
                    if !same_opt(&got, &Some(want.clone())) {
                        fail(l, "walk by next()", pos, &got, want);
                        return;
                    }
                } else {
                    let _ = g.next(ScoreState::new());
                }
                l.states(1);
            }
            // jumps from a fresh calculator
            for (pos, st, want) in &refs {
                let mut g = api::gradual_perf(d.clone(), &map, cfg.dst).expect("convertible");
                let got = g.nth(st.clone(), pos - 1);
                l.checked(1);
                l.states(1);
                if !same_opt(&got, &Some(want.clone())) {
                    fail(l, "nth() from a fresh calculator", *pos, &got, want);
                    return;
                }
                if *pos == total {
                    let mut g = api::gradual_perf(d.clone(), &map, cfg.dst).expect("convertible");
                    let got = g.last(st.clone());
                    l.checked(1);
                    if !same_opt(&got, &Some(want.clone())) {
                        fail(l, "last() from a fresh calculator", *pos, &got, want);
                        return;
                    }
                }
            }
        });
    }
    // native mania with a fractional key count (CircleSize x.5)
    {
        let cfg = gen::ModeCfg { src: 3, dst: 3 };
        let alpha = Alphabet::product(&[Kind::Circle, Kind::Hold(100)], &[0, 150], &[PosK::Same], &[0], &[0, 2]);
        let n_max = 3u32;
        let per = alpha.count_upto(n_max);
        let keys = [4u8, 6];
        let setts = [Setting::nm(), Setting { lazer: Some(false), ..Setting::bits(settings::DT) }];
        ctx.universe("mania-half-keys/3to3/N<=3", per * keys.len() as u64, |idx, l| {
            let spec = MapSpec { keys: keys[(idx / per) as usize], cs_tenths: 5, ..MapSpec::new(3, alpha.seq(idx % per, n_max)) };
            let map = spec.decode();
            check_case(l, cfg, &map, &setts, &|| format!("cfg={cfg:?}\nspec={}\n--- .osu ---\n{}", spec.describe(), spec.text()));
        });
    }
    // the slowest timing (1 BPM): sliders last tens of seconds and carry hundreds of nested objects between two events
    for cfg in MODE_CFGS.iter().filter(|c| c.src != 3) {
        let alpha = Alphabet::product(&[Kind::Circle, Kind::Slider1, Kind::Slider2], &[1000, gen::END_REL + 1000], &[PosK::Far], &[0], &[0]);
        let n_max = 2u32;
        let setts = [Setting::nm(), Setting { lazer: Some(false), ..Setting::bits(settings::HR | settings::DT) }];
        let name = format!("slowest-timing/{}to{}/N<=2", cfg.src, cfg.dst);
        ctx.universe(&name, alpha.count_upto(n_max), |idx, l| {
            let spec = MapSpec { timing: gen::Timing::T8, ..MapSpec::new(cfg.src, alpha.seq(idx, n_max)) };
            let map = spec.decode();
            check_case(l, *cfg, &map, &setts, &|| format!("cfg={cfg:?}\nspec={}\n--- .osu ---\n{}", spec.describe(), spec.text()));
        });
    }
    let n_max: u32 = ctx.pick(3, 4);
    for cfg in MODE_CFGS.iter() {
        let kinds = if cfg.src == 3 {
            vec![Kind::Circle, Kind::Hold(100), Kind::Hold(300)]
        } else {
            // (a fourth kind at N <= 4 does not finish inside the thorough cap)
            vec![Kind::Circle, Kind::Slider2, Kind::Spinner(600)]
        };
        let alpha = Alphabet::product(&kinds, &[0, 150, 1000], &[PosK::Same, PosK::Far], &[0], &[0]);
        let setts = settings_menu(cfg.dst, !ctx.quick());
        let total = alpha.count_upto(n_max);
        let name = format!("grammar/{}to{}/N<={}", cfg.src, cfg.dst, n_max);
        ctx.universe(&name, total, |idx, l| {
            let spec = MapSpec { diff: gen::DiffPreset::D3, ..MapSpec::new(cfg.src, alpha.seq(idx, n_max)) };
            let map = spec.decode();
            if l.want_sample() {
                let mut o = J::obj();
                o.set("universe", J::s(name.clone()));
                o.set("index", J::i(idx));
                o.set("map_spec", J::s(spec.describe()));
                o.set("settings_in_menu", J::i(setts.len() as u64));
                l.sample(o);
            }
            check_case(l, *cfg, &map, &setts, &|| format!("cfg={cfg:?}\nspec={}\n--- .osu ---\n{}", spec.describe(), spec.text()));
        });
    }
    ctx.finish();
}
