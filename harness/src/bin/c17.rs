//! C17 — attribute builder is self-consistent and matches what calculators use.

use rosu_pp::{
    any::DifficultyAttributes,
    model::beatmap::{BeatmapAttributes, BeatmapAttributesBuilder, HitWindows},
    Difficulty,
};
use vh::{
    api,
    ctx::{product, unrank},
    gen,
    json::J,
    settings::{self, ModSpec, Setting},
    uni::UniOpts,
    Ctx, Local,
};

fn mods_menu() -> Vec<(&'static str, ModSpec)> {
    vec![
        ("NM", ModSpec::Bits(0)),
        ("HR", ModSpec::Bits(settings::HR)),
        ("EZ", ModSpec::Bits(settings::EZ)),
        ("DT", ModSpec::Bits(settings::DT)),
        ("HT", ModSpec::Bits(settings::HT)),
        ("HRDT", ModSpec::Bits(settings::HR | settings::DT)),
        ("EZHT", ModSpec::Bits(settings::EZ | settings::HT)),
        ("DA", ModSpec::Da(Some(9.5), Some(6.0), Some(4.0), Some(3.0))),
    ]
}

// (index 4 must stay rate 1; the last three are not multiples of 0.01)
const RATES: [Option<f64>; 11] = [None, Some(0.01), Some(0.5), Some(0.75), Some(1.0), Some(1.5), Some(2.0), Some(100.0), Some(1.234), Some(0.875), Some(33.333)];

fn close(a: f64, b: f64) -> bool {
    a == b || (a - b).abs() <= 1e-9 * a.abs().max(b.abs()).max(1.0)
}

fn windows(h: &HitWindows) -> [Option<f64>; 4] {
    [Some(h.ar), Some(h.od_great), h.od_ok, h.od_meh]
}

#[derive(Clone, Copy, Debug)]
struct Cfg {
    mode: u8,
    convert: bool,
    mods: usize,
    rate: usize,
    ar_wm: bool,
    od_wm: bool,
    /// which attribute sweeps the grid: 0 ar, 1 od, 2 cs, 3 hp
    sweep: u8,
}

fn builder(c: &Cfg, v: f32, menu: &[(&'static str, ModSpec)], mods_override: Option<&ModSpec>) -> BeatmapAttributesBuilder {
    let mode = gen::game_mode(c.mode);
    let m = mods_override.unwrap_or(&menu[c.mods].1);
    let mut b = BeatmapAttributesBuilder::new().mode(mode, c.convert).mods(m.build(mode));
    if let Some(r) = RATES[c.rate] {
        b = b.clock_rate(r);
    }
    let (ar, od, cs, hp) = match c.sweep {
        0 => (v, 7.3, 4.2, 5.5),
        1 => (8.2, v, 4.2, 5.5),
        2 => (8.2, 7.3, v, 5.5),
        _ => (8.2, 7.3, 4.2, v),
    };
    // the swept attribute uses the flag under test; cs / hp sweeps use ar_wm as their own flag
    b = b.ar(ar, c.ar_wm).od(od, c.od_wm);
    b = b.cs(cs, if c.sweep == 2 { c.ar_wm } else { false });
    b = b.hp(hp, if c.sweep == 3 { c.ar_wm } else { false });
    b
}

fn check_cfg(l: &mut Local<'_>, c: &Cfg, menu: &[(&'static str, ModSpec)]) {
    // 0.5 steps over [-20, 20]; thorough: 0.125 steps
    let grid: Vec<f32> = if l.ctx.quick() { (-40..=40).map(|i| i as f32 * 0.5).collect() } else { (-160..=160).map(|i| i as f32 * 0.125).collect() };
    let mut prev: Option<(f32, BeatmapAttributes)> = None;
    let rate = RATES[c.rate];
    let mname = menu[c.mods].0;
    let ctxs = |v: f32, extra: String| format!("cfg={c:?} mods={mname} rate={rate:?} swept value={v}\n{extra}");
    for &v in &grid {
        let b = builder(c, v, menu, None);
        let hw = b.hit_windows();
        let built = b.build();
        l.states(1);
        l.checked(1);
        // 1. hit_windows() == build().hit_windows
        if hw != built.hit_windows {
            l.violation("hit_windows_vs_build", || ctxs(v, format!("hit_windows()={hw:?} but build().hit_windows={:?}", built.hit_windows)));
            return;
        }
        // 1b. the same configuration handed over as a Difficulty gives the same attributes (clock rate as requested)
        {
            let mode = gen::game_mode(c.mode);
            let mut d = rosu_pp::Difficulty::new().mods(menu[c.mods].1.build(mode));
            if let Some(r) = rate {
                d = d.clock_rate(r);
            }
            let (ar, od, cs, hp) = match c.sweep {
                0 => (v, 7.3, 4.2, 5.5),
                1 => (8.2, v, 4.2, 5.5),
                2 => (8.2, 7.3, v, 5.5),
                _ => (8.2, 7.3, 4.2, v),
            };
            d = d.ar(ar, c.ar_wm).od(od, c.od_wm).cs(cs, if c.sweep == 2 { c.ar_wm } else { false }).hp(hp, if c.sweep == 3 { c.ar_wm } else { false });
            let via = BeatmapAttributesBuilder::new().mode(mode, c.convert).difficulty(&d).build();
            l.checked(1);
            if via != built {
                l.violation("via_difficulty", || ctxs(v, format!("builder configured directly: {built:?}\nbuilder configured through Difficulty: {via:?}")));
                return;
            }
        }
        let in_range = (0.0..=10.0).contains(&v);
        // 2. with_mods = true round trip on [0, 10]
        if in_range && mname != "DA" {
            let flag = match c.sweep {
                0 | 2 | 3 => c.ar_wm,
                _ => c.od_wm,
            };
            if flag {
                let got = match c.sweep {
                    0 => built.ar,
                    1 => built.od,
                    2 => built.cs,
                    _ => built.hp,
                };
                l.checked(1);
                if !close(got, f64::from(v)) {
                    let an = ["ar", "od", "cs", "hp"][c.sweep as usize];
                    l.violation(&format!("roundtrip_{an}"), || ctxs(v, format!("{an}({v}, with_mods=true) is reported back as {got}")));
                    return;
                }
            }
            // the non-swept OD / AR given with_mods=true must round-trip as well
            if c.sweep == 0 && c.od_wm && c.mode != 3 {
                l.checked(1);
                if !close(built.od, 7.3f32.into()) {
                    l.violation("roundtrip_od", || ctxs(v, format!("od(7.3, with_mods=true) is reported back as {}", built.od)));
                    return;
                }
            }
            if c.sweep == 1 && c.ar_wm {
                l.checked(1);
                if !close(built.ar, 8.2f32.into()) {
                    l.violation("roundtrip_ar", || ctxs(v, format!("ar(8.2, with_mods=true) is reported back as {}", built.ar)));
                    return;
                }
            }
        }
        // 3a. windows non-increasing as OD / AR grow
        if let Some((pv, p)) = &prev {
            if c.sweep <= 1 && in_range && *pv >= 0.0 {
                let (a, b2) = (windows(&p.hit_windows), windows(&built.hit_windows));
                for k in 0..4 {
                    if let (Some(x), Some(y)) = (a[k], b2[k]) {
                        if y > x + 1e-9 {
                            l.violation("monotone", || ctxs(v, format!("window #{k} grows from {x} (value {pv}) to {y} (value {v})")));
                            return;
                        }
                    }
                }
            }
        }
        // 3b. windows scale inversely with clock rate (with_mods = false): compare with rate 1
        if let Some(r) = rate {
            if in_range {
                let c1 = Cfg { rate: 4, ..*c };
                let h1 = builder(&c1, v, menu, None).hit_windows();
                l.checked(1);
                if !c.ar_wm && !close(hw.ar * r, h1.ar) {
                    l.violation("rate_scaling_ar", || ctxs(v, format!("preempt {} at rate {r} vs {} at rate 1", hw.ar, h1.ar)));
                    return;
                }
                if c.ar_wm && !close(hw.ar, h1.ar) {
                    l.violation("rate_scaling_ar_wm", || ctxs(v, format!("with_mods preempt {} at rate {r} vs {} at rate 1", hw.ar, h1.ar)));
                    return;
                }
                if c.mode != 3 {
                    for (x, y) in [(Some(hw.od_great), Some(h1.od_great)), (hw.od_ok, h1.od_ok), (hw.od_meh, h1.od_meh)] {
                        if let (Some(x), Some(y)) = (x, y) {
                            let ok = if c.od_wm { close(x, y) } else { close(x * r, y) };
                            if !ok {
                                l.violation("rate_scaling_od", || ctxs(v, format!("OD window {x} at rate {r} vs {y} at rate 1 (od with_mods={})", c.od_wm)));
                                return;
                            }
                        }
                    }
                }
            }
        }
        // 4. HR never easier, EZ never harder than NM on [0, 10] (checked on the NM configuration)
        if in_range && mname == "NM" {
            let hr = builder(c, v, menu, Some(&ModSpec::Bits(settings::HR))).build();
            let ez = builder(c, v, menu, Some(&ModSpec::Bits(settings::EZ))).build();
            l.checked(2);
            let vals = |a: &BeatmapAttributes| [a.ar, a.od, a.cs, a.hp];
            let (h, n, e) = (vals(&hr), vals(&built), vals(&ez));
            for k in 0..4 {
                // mania reports the raw OD value; catch likewise: still HR >= NM >= EZ trivially
                if h[k] < n[k] - 1e-9 || n[k] < e[k] - 1e-9 {
                    let an = ["ar", "od", "cs", "hp"][k];
                    l.violation("hr_ez_order", || ctxs(v, format!("{an}: HR {} / NM {} / EZ {}", h[k], n[k], e[k])));
                    return;
                }
            }
            let (hwn, hwh, hwe) = (windows(&built.hit_windows), windows(&hr.hit_windows), windows(&ez.hit_windows));
            for k in 0..4 {
                if let (Some(n_), Some(h_), Some(e_)) = (hwn[k], hwh[k], hwe[k]) {
                    if h_ > n_ + 1e-9 || n_ > e_ + 1e-9 {
                        l.violation("hr_ez_windows", || ctxs(v, format!("window #{k}: HR {h_} / NM {n_} / EZ {e_}")));
                        return;
                    }
                }
            }
        }
        prev = Some((v, built));
    }
    l.nontrivial();
}

fn main() {
    let ctx = Ctx::from_env("C17");
    ctx.rule("universe 'builder': mode x convert flag x mods {NM,HR,EZ,DT,HT,HRDT,EZHT,lazer DA} x clock rate {unset,0.01,0.5,0.75,1,1.5,2,100,1.234,0.875,33.333} x (ar with_mods, od with_mods) x swept attribute {ar,od,cs,hp}, each sweeping a 0.5 grid over [-20,20]; oracle = hit_windows()==build().hit_windows everywhere; on [0,10]: with_mods=true round trip (1e-9), windows non-increasing in OD/AR, windows x clock rate constant (mania excluded: floor/ceil formula), HR >= NM >= EZ. universe 'builder-from-map': maps of all modes whose ar / od / cs / hp fields are set in code to {-5, 0, 5.5, 10, 12, 20}^4 x 4 mod sets: map.attributes() == BuilderFrom(&map) == new().map(&map) (build and hit_windows), and the native calculator's AR / HP / great window equal that builder's. universe 'calculators': grammar maps x settings (overrides up to +-20, beyond the point where hit windows turn negative): OsuDifficultyAttributes.{ar, od(), *_hit_window, hp}, taiko windows and catch AR equal the builder's output for the same (converted) map and Difficulty; non-trivial = every builder case / stars > 0");

    let menu = mods_menu();
    let radices: [u64; 7] = [4, 2, menu.len() as u64, RATES.len() as u64, 2, 2, 4];
    ctx.universe("builder", product(&radices), |idx, l| {
        let mut d = [0u64; 7];
        unrank(idx, &radices, &mut d);
        let c = Cfg { mode: d[0] as u8, convert: d[1] == 1, mods: d[2] as usize, rate: d[3] as usize, ar_wm: d[4] == 1, od_wm: d[5] == 1, sweep: d[6] as u8 };
        if l.want_sample() {
            let mut o = J::obj();
            o.set("universe", J::s("builder"));
            o.set("index", J::i(idx));
            o.set("cfg", J::s(format!("{c:?}")));
            o.set("grid", J::s("0.5 steps over [-20, 20]"));
            l.sample(o);
        }
        check_cfg(l, &c, &menu);
    });

    // builders made from a map: `map.attributes()`, `BeatmapAttributesBuilder::from(&map)` and `new().map(&map)` are one builder,
    // also for maps whose public ar / od / cs / hp fields were set in code to values a file cannot carry
    {
        let vals: [f32; 6] = [-5.0, 0.0, 5.5, 10.0, 12.0, 20.0];
        let mods = [0u32, settings::HR, settings::EZ | settings::HT, settings::DT];
        let total = 4 * (vals.len() as u64).pow(4);
        ctx.universe("builder-from-map", total, |idx, l| {
            let mut r = idx;
            let mut take = |n: u64| { let v = r % n; r /= n; v as usize };
            let mode = take(4) as u8;
            let (ar, od, cs, hp) = (vals[take(6)], vals[take(6)], vals[take(6)], vals[take(6)]);
            let mut map = gen::MapSpec::new(mode, vec![gen::Obj { kind: gen::Kind::Circle, gap: 0, pos: gen::PosK::Far, sound: 0, col: 0 }, gen::Obj { kind: gen::Kind::Circle, gap: 150, pos: gen::PosK::Far, sound: 0, col: 1 }]).decode();
            (map.ar, map.od, map.cs, map.hp) = (ar, od, cs, hp);
            l.states(1);
            l.nontrivial();
            if l.want_sample() {
                let mut o = J::obj();
                o.set("universe", J::s("builder-from-map"));
                o.set("index", J::i(idx));
                o.set("map_fields", J::s(format!("mode {mode}: ar={ar} od={od} cs={cs} hp={hp}")));
                l.sample(o);
            }
            for m in mods {
                let a = map.attributes().mods(m);
                let b = BeatmapAttributesBuilder::from(&map).mods(m);
                let c = BeatmapAttributesBuilder::new().map(&map).mods(m);
                l.checked(4);
                let (ba, bb, bc) = (a.build(), b.build(), c.build());
                if format!("{ba:?}") != format!("{bb:?}") || format!("{ba:?}") != format!("{bc:?}") || format!("{:?}", a.hit_windows()) != format!("{:?}", b.hit_windows()) {
                    l.violation("builder_from_map", || format!("mode {mode}, map fields ar={ar} od={od} cs={cs} hp={hp}, mods bits {m}: three ways to make a builder from a map disagree\n map.attributes()                      : {ba:?}\n BeatmapAttributesBuilder::from(&map)  : {bb:?}\n BeatmapAttributesBuilder::new().map() : {bc:?}"));
                    return;
                }
                // and the calculators see the same values
                let attrs = api::difficulty(&Difficulty::new().mods(m), &map, mode).expect("native");
                let bad = match &attrs {
                    DifficultyAttributes::Osu(o) => o.ar != ba.ar || o.hp != ba.hp || o.great_hit_window != ba.hit_windows.od_great,
                    DifficultyAttributes::Taiko(t) => t.great_hit_window != ba.hit_windows.od_great,
                    DifficultyAttributes::Catch(ca) => ca.ar != ba.ar,
                    DifficultyAttributes::Mania(_) => false,
                };
                if bad {
                    l.violation("calculator_vs_builder_from_map", || format!("mode {mode}, map fields ar={ar} od={od} cs={cs} hp={hp}, mods bits {m}: the calculator's attributes differ from the builder made from the same map\n calculator: {attrs:?}\n builder   : {ba:?}"));
                    return;
                }
            }
        });
    }

    // calculators vs builder
    let n_max = ctx.pick(2, 3);
    let mut opts = UniOpts::new(n_max);
    opts.gaps = vec![150];
    opts.poss = vec![gen::PosK::Far];
    let mut setts: Vec<Setting> = Vec::new();
    for (_, m) in &menu {
        for r in [None, Some(0.75), Some(1.3), Some(1.234)] {
            for (ar, od) in [(None, None), (Some((9.3, true)), Some((9.3, false))), (Some((9.3, false)), Some((8.5, true))), (Some((-3.0, false)), Some((11.0, true))), (Some((-20.0, true)), Some((20.0, true))), (Some((20.0, false)), Some((15.0, false)))] {
                for lazer in [None, Some(false)] {
                    setts.push(Setting { mods: m.clone(), rate: r, ar, od, cs: None, hp: if ar.is_some() { Some((6.5, od.is_some_and(|o| o.1))) } else { None }, hr_offsets: None, lazer, passed: None });
                }
            }
        }
    }
    for preset in [gen::DiffPreset::D0, gen::DiffPreset::D1, gen::DiffPreset::D2] {
        opts.diff = preset;
        opts.tag = format!("/calculators/{preset:?}");
        for u in opts.build() {
            if u.cfg.dst == 3 {
                continue;
            }
            ctx.universe(&u.name, u.total, |idx, l| {
                let (spec, map) = u.decode(idx);
                u.sample(l, idx, &spec, "settings: 8 mods x 4 rates x 6 override patterns (AR / OD up to +-20)");
                let mode = gen::game_mode(u.cfg.dst);
                for s in &setts {
                    let d: Difficulty = s.difficulty(mode);
                    let conv = map.clone().convert(mode, &d.clone().inspect().mods).expect("convertible");
                    let a = api::difficulty(&d, &map, u.cfg.dst).expect("convertible");
                    // the gradual calculators build their attributes separately: their values must carry the same windows
                    let grad: Vec<DifficultyAttributes> = api::gradual(d.clone(), &map, u.cfg.dst).expect("convertible").take(2).collect();
                    let b = conv.attributes().difficulty(&d);
                    let built = b.build();
                    let hw = b.hit_windows();
                    l.states(1);
                    l.checked(1);
                    if a.stars() > 0.0 {
                        l.nontrivial();
                    }
                    let bad = match &a {
                        DifficultyAttributes::Osu(o) => {
                            if o.ar != built.ar {
                                Some(format!("osu ar {} vs builder {}", o.ar, built.ar))
                            } else if o.great_hit_window != hw.od_great || Some(o.ok_hit_window) != hw.od_ok || Some(o.meh_hit_window) != hw.od_meh {
                                Some(format!("osu windows ({}, {}, {}) vs builder {hw:?}", o.great_hit_window, o.ok_hit_window, o.meh_hit_window))
                            } else if !((o.od() - built.od).abs() <= 1e-9) {
                                Some(format!("osu od() {} vs builder {}", o.od(), built.od))
                            } else if o.hp != built.hp {
                                Some(format!("osu hp {} vs builder {}", o.hp, built.hp))
                            } else {
                                None
                            }
                        }
                        DifficultyAttributes::Taiko(t) => {
                            if t.great_hit_window != hw.od_great || Some(t.ok_hit_window) != hw.od_ok {
                                Some(format!("taiko windows ({}, {}) vs builder {hw:?}", t.great_hit_window, t.ok_hit_window))
                            } else {
                                None
                            }
                        }
                        DifficultyAttributes::Catch(c) => {
                            if c.ar != built.ar {
                                Some(format!("catch ar {} vs builder {}", c.ar, built.ar))
                            } else {
                                None
                            }
                        }
                        DifficultyAttributes::Mania(_) => None,
                    };
                    let win = |x: &DifficultyAttributes| match x {
                        DifficultyAttributes::Osu(o) => vec![o.ar, o.great_hit_window, o.ok_hit_window, o.meh_hit_window, o.hp],
                        DifficultyAttributes::Taiko(t) => vec![t.great_hit_window, t.ok_hit_window],
                        DifficultyAttributes::Catch(c) => vec![c.ar],
                        DifficultyAttributes::Mania(_) => vec![],
                    };
                    let bad = bad.or_else(|| grad.iter().find(|g| win(g) != win(&a)).map(|g| format!("gradual value carries {:?} but the one-shot attributes {:?}", win(g), win(&a))));
                    // the difficulty attributes that a performance result carries (default score, a score without a single best
                    // judgement, all misses, a state set explicitly) must carry the same windows too
                    let bad = bad.or_else(|| {
                        use rosu_pp::{any::ScoreState, Performance};
                        let n = conv.hit_objects.len() as u32;
                        let base = || {
                            let p = Performance::new(&map).difficulty(d.clone());
                            if map.mode == mode { p } else { p.try_mode(mode).ok().expect("convertible") }
                        };
                        // the same settings through the calculator's own setters, applied to the calculator of the target mode
                        let own = {
                            let i = d.clone().inspect();
                            let p = Performance::new(&map);
                            let mut p = if map.mode == mode { p } else { p.try_mode(mode).ok().expect("convertible") };
                            p = p.mods(i.mods.clone());
                            if let Some(v) = i.clock_rate {
                                p = p.clock_rate(v);
                            }
                            if let Some(v) = &i.ar {
                                p = p.ar(v.value, v.with_mods);
                            }
                            if let Some(v) = &i.cs {
                                p = p.cs(v.value, v.with_mods);
                            }
                            if let Some(v) = &i.hp {
                                p = p.hp(v.value, v.with_mods);
                            }
                            if let Some(v) = &i.od {
                                p = p.od(v.value, v.with_mods);
                            }
                            if let Some(v) = i.lazer {
                                p = p.lazer(v);
                            }
                            p.calculate()
                        };
                        let perfs = [
                            ("configured through the calculator's own setters", own),
                            ("default score", base().calculate()),
                            ("n300 = 0, n100 = all", base().n300(0).n100(n).calculate()),
                            ("all misses", base().misses(n).calculate()),
                            ("empty state", base().state(ScoreState::new()).calculate()),
                            ("accuracy 0", base().accuracy(0.0).calculate()),
                        ];
                        l.checked(perfs.len() as u64);
                        perfs.iter().find(|(_, p)| win(&p.difficulty_attributes()) != win(&a)).map(|(name, p)| format!("performance result ({name}) carries {:?} but the one-shot difficulty attributes {:?}", win(&p.difficulty_attributes()), win(&a)))
                    });
                    if let Some(msg) = bad {
                        l.violation("calculator_vs_builder", || format!("cfg={:?} setting={s:?}\n{msg}\nspec={}\n--- .osu ---\n{}", u.cfg, spec.describe(), spec.text()));
                        return;
                    }
                }
            });
        }
    }
    ctx.finish();
}
