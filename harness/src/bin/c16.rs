//! C16 — strain output is consistent with the star rating it explains.

use rosu_pp::{
    any::{DifficultyAttributes, Strains},
    Beatmap, Difficulty,
};
use vh::{
    api, gen,
    settings::{self, ModSpec, Setting},
    uni::UniOpts,
    Ctx,
};

fn skills(s: &Strains) -> Vec<(&'static str, &Vec<f64>)> {
    match s {
        Strains::Osu(o) => vec![("aim", &o.aim), ("aim_no_sliders", &o.aim_no_sliders), ("speed", &o.speed), ("flashlight", &o.flashlight)],
        Strains::Taiko(t) => vec![("color", &t.color), ("reading", &t.reading), ("rhythm", &t.rhythm), ("stamina", &t.stamina), ("single_color_stamina", &t.single_color_stamina)],
        Strains::Catch(c) => vec![("movement", &c.movement)],
        Strains::Mania(m) => vec![("strains", &m.strains)],
    }
}

fn weighted(peaks: &[f64], w: f64) -> f64 {
    let mut p: Vec<f64> = peaks.iter().copied().filter(|x| *x > 0.0).collect();
    p.sort_by(|a, b| b.total_cmp(a));
    let mut sum = 0.0;
    let mut weight = 1.0;
    for x in p {
        sum += x * weight;
        weight *= w;
    }
    sum
}

fn close(a: f64, b: f64) -> bool {
    a == b || (a - b).abs() <= 1e-9 * a.abs().max(b.abs()).max(1e-300)
}

/// Reference section count (clock rate 1 only): sections start at ceil(t_first/len)*len and a new one begins while t > end.
fn ref_sections(times: &[f64], first_idx: usize, len: f64) -> Option<usize> {
    let first = *times.get(first_idx)?;
    let mut end = (first / len).ceil() * len;
    let mut n = 1;
    for &t in &times[first_idx..] {
        while t > end {
            n += 1;
            end += len;
        }
    }
    Some(n)
}

fn settings_menu(dst: u8, rich: bool) -> Vec<Setting> {
    let mut v = vec![Setting::nm(), Setting::bits(settings::DT), Setting::bits(settings::HR), Setting { rate: Some(0.75), ..Setting::nm() }];
    if dst == 0 {
        v.extend([Setting::bits(settings::FL), Setting::bits(settings::FL | settings::TD), Setting::bits(settings::FL | settings::RX), Setting::bits(settings::AP | settings::HD | settings::FL), Setting::bits(settings::FL | settings::TD | settings::RX), Setting::bits(settings::TD | settings::AP)]);
    }
    if dst == 3 {
        v.extend([Setting::bits(settings::KEY7), Setting::mods(ModSpec::Invert), Setting::mods(ModSpec::HoIn(Some(5.0)))]);
    }
    if rich {
        v.extend([Setting::bits(settings::EZ | settings::HT), Setting { rate: Some(1.2), ..Setting::nm() }, Setting { rate: Some(2.0), ..Setting::bits(settings::FL) }]);
    }
    v
}

fn check_map(l: &mut vh::Local<'_>, cfg: vh::gen::ModeCfg, spec: &vh::gen::MapSpec, map: &Beatmap, menu: &[Setting]) {
    let dst = cfg.dst;
    let mode = gen::game_mode(dst);
    for s in menu {
        let d0: Difficulty = s.difficulty(mode);
        let conv: Beatmap = map.clone().convert(mode, &d0.clone().inspect().mods).expect("convertible");
        let full = api::difficulty(&d0, &map, dst).expect("convertible");
        let total = match &full {
            DifficultyAttributes::Osu(a) => a.n_objects(),
            DifficultyAttributes::Taiko(a) => a.max_combo,
            DifficultyAttributes::Catch(a) => a.n_fruits + a.n_droplets,
            DifficultyAttributes::Mania(a) => a.n_objects,
        };
        for n in (0..=total).rev() {
            let d = if n == total { d0.clone() } else { d0.clone().passed_objects(n) };
            let st = api::strains(&d, &map, dst).expect("convertible");
            let at = api::difficulty(&d, &map, dst).expect("convertible");
            l.states(1);
            l.checked(2);
            let sk = skills(&st);
            let ctxs = |extra: String| format!("cfg={:?} setting={s:?} passed_objects={}\n{extra}\nspec={}\n--- .osu ---\n{}", cfg, if n == total { "unset".to_owned() } else { n.to_string() }, spec.describe(), spec.text());
            for (name, v) in &sk {
                if let Some(bad) = v.iter().find(|x| !x.is_finite() || **x < 0.0) {
                    l.violation("peak_range", || ctxs(format!("skill {name} has peak {bad}")));
                    return;
                }
                if v.iter().any(|x| *x > 0.0) {
                    l.nontrivial();
                }
            }
            let lens: Vec<usize> = sk.iter().map(|(_, v)| v.len()).collect();
            if lens.iter().any(|x| *x != lens[0]) {
                l.violation("section_counts", || ctxs(format!("skills report different section counts: {:?}", sk.iter().map(|(n, v)| (*n, v.len())).collect::<Vec<_>>())));
                return;
            }
            // independent section count
            let rate1 = s.rate.is_none() && matches!(&s.mods, ModSpec::Bits(b) if b & (settings::DT | settings::HT | settings::NC) == 0);
            if rate1 && matches!(dst, 0 | 1 | 3) && !matches!(s.mods, ModSpec::Invert | ModSpec::HoIn(_)) {
                // objects considered: osu / mania count objects, taiko counts hits
                let times: Vec<f64> = if dst == 1 {
                    let mut hits = 0;
                    let total_hits = conv.hit_objects.iter().filter(|h| h.is_circle()).count() as u32;
                    conv.hit_objects
                        .iter()
                        .take_while(|h| {
                            let take = n >= total_hits || hits < n;
                            if h.is_circle() {
                                hits += 1;
                            }
                            take
                        })
                        .map(|h| h.start_time)
                        .collect()
                } else {
                    conv.hit_objects.iter().take(n as usize).map(|h| h.start_time).collect()
                };
                let first_idx = if dst == 1 { 2 } else { 1 };
                if let Some(want) = ref_sections(&times, first_idx, 400.0) {
                    l.checked(1);
                    if lens[0] != want {
                        l.violation("section_count_ref", || ctxs(format!("{} sections reported but the object times {times:?} span {want} sections of 400ms", lens[0])));
                        return;
                    }
                }
            }
            // re-aggregation
            match (&st, &at) {
                (Strains::Catch(c), DifficultyAttributes::Catch(a)) => {
                    let want = weighted(&c.movement, 0.94).sqrt() * 4.59;
                    l.checked(1);
                    if !close(want, a.stars) {
                        l.violation("catch_stars", || ctxs(format!("stars={} but re-aggregated movement peaks give {want}", a.stars)));
                        return;
                    }
                }
                (Strains::Mania(m), DifficultyAttributes::Mania(a)) => {
                    let want = weighted(&m.strains, 0.9) * 0.018;
                    l.checked(1);
                    if !close(want, a.stars) {
                        l.violation("mania_stars", || ctxs(format!("stars={} but re-aggregated strain peaks give {want}", a.stars)));
                        return;
                    }
                }
                (Strains::Osu(o), DifficultyAttributes::Osu(a)) => {
                    let mut want = o.flashlight.iter().sum::<f64>().sqrt() * 0.0675;
                    if let ModSpec::Bits(b) = s.mods {
                        if b & settings::TD != 0 {
                            want = want.powf(0.8);
                        }
                        if b & settings::RX != 0 {
                            want *= 0.7;
                        } else if b & settings::AP != 0 {
                            want *= 0.4;
                        }
                    }
                    l.checked(1);
                    if !close(want, a.flashlight) {
                        l.violation("osu_flashlight", || ctxs(format!("flashlight={} but the summed flashlight peaks give {want}", a.flashlight)));
                        return;
                    }
                }
                _ => {}
            }
        }
    }
}

fn main() {
    let ctx = Ctx::from_env("C16");
    ctx.rule("case = (mode configuration, grammar map with gaps {150,400,1000,7000} and first start in {-500,0,400,1000}; plus maps of <= 3/4 objects at gaps {0, 10, 150} ms stacked and apart under no mod and FL+DT, native mania files with notes on and beyond the playfield borders (x in {-40, 0, 255, 511, 512, 640}), and three maps per mode configuration that check_suspicion flags: objects a day apart, 120 objects 5 ms apart, 260 objects 3 ms apart); per case: settings menu x every passed_objects prefix; oracle = peaks finite and >= 0; all skills of the mode have the same number of sections; at clock rate 1 the section count equals an independent count from the object times (osu!, taiko, mania); re-aggregation (drop zeros, sort descending, sum p_i*w^i with w=0.94 catch / 0.9 mania; plain sum for flashlight, then TD/RX/AP factors) reproduces stars (catch, mania) and flashlight (osu!) within relative 1e-9; non-trivial = at least one positive peak");

    // periodic longer maps first
    {
        let rich = !ctx.quick();
        for mu in vh::uni::motif_universes(&vh::gen::MODE_CFGS, ctx.pick(2, 3), 6, false).into_iter().chain(vh::uni::rhythm_universes(&vh::gen::MODE_CFGS, 3, 3)).chain(if rich { vh::uni::rhythm_universes_wide(&vh::gen::MODE_CFGS) } else { Vec::new() }) {
            let menu = settings_menu(mu.cfg.dst, rich);
            ctx.universe(&mu.name, mu.total, |idx, l| {
                let spec = mu.spec(idx);
                let map = spec.decode();
                check_map(l, mu.cfg, &spec, &map, &menu);
            });
        }
    }
    // native mania with a fractional key count under mods that rebuild or relabel the columns (Random with two seeds, Invert,
    // HoldOff + Invert + Random): the stars must follow from the peaks that strains() returns for the same mods
    {
        let cfg = gen::ModeCfg { src: 3, dst: 3 };
        let alpha = gen::Alphabet::product(&[gen::Kind::Circle, gen::Kind::Hold(100), gen::Kind::Hold(300)], &[0, 150], &[gen::PosK::Same], &[0], &[0, 1, 2]);
        let n_max = 3u32;
        let per = alpha.count_upto(n_max);
        let keys = [4u8, 5, 6, 7];
        let menu = vec![Setting::nm(), Setting::mods(ModSpec::Random(Some(1337.0))), Setting::mods(ModSpec::Random(Some(3.0))), Setting::mods(ModSpec::Invert), Setting::mods(ModSpec::HoIn(Some(5.0)))];
        ctx.universe("mania-half-keys/3to3/N<=3", per * keys.len() as u64, |idx, l| {
            let spec = gen::MapSpec { keys: keys[(idx / per) as usize], cs_tenths: 5, ..gen::MapSpec::new(3, alpha.seq(idx % per, n_max)) };
            let map = spec.decode();
            check_map(l, cfg, &spec, &map, &menu);
        });
    }
    // maps that check_suspicion flags (objects more than a day apart; far more than 100 objects inside one second) still get
    // ratings, and those ratings must follow from the peaks returned for them
    {
        let o = |gap: u32, col: u8| gen::Obj { kind: gen::Kind::Circle, gap, pos: gen::PosK::Far, sound: 0, col };
        let menu = vec![Setting::nm()];
        let cfgs: Vec<gen::ModeCfg> = vh::gen::MODE_CFGS.to_vec();
        ctx.universe("suspicious-maps/far-apart-and-dense", cfgs.len() as u64 * 3, |idx, l| {
            let cfg = cfgs[(idx / 3) as usize];
            let spec = match idx % 3 {
                0 => gen::MapSpec::new(cfg.src, vec![o(0, 0), o(150, 1), o(90_000_000, 0), o(150, 1)]),
                1 => gen::MapSpec { stream: (120, 5), ..gen::MapSpec::new(cfg.src, vec![o(0, 0)]) },
                _ => gen::MapSpec { stream: (260, 3), ..gen::MapSpec::new(cfg.src, vec![o(0, 0)]) },
            };
            let map = spec.decode();
            // (mania tolerates 200 objects per second: its 120-object stream is not flagged and is simply one more dense map)
            check_map(l, cfg, &spec, &map, &menu);
        });
    }
    // marathon maps: a hard opening (40 notes 100 ms apart) and an easy tail of 1080 notes 400 ms apart — more than 1024
    // strain sections, and the peaks that decide the rating are the oldest ones
    {
        let o = |gap: u32, col: u8| gen::Obj { kind: gen::Kind::Circle, gap, pos: gen::PosK::Far, sound: 0, col };
        let menu = vec![Setting::nm()];
        let cfgs: Vec<gen::ModeCfg> = vh::gen::MODE_CFGS.to_vec();
        ctx.universe("marathon/40-fast+1080-slow", cfgs.len() as u64, |idx, l| {
            let cfg = cfgs[idx as usize];
            let spec = gen::MapSpec { stream: (1080, 400), ..gen::MapSpec::new(cfg.src, (0..40u8).map(|i| o(100, i % 4)).collect()) };
            let map = spec.decode();
            check_map(l, cfg, &spec, &map, &menu);
        });
    }
    // objects at the same time and 10 ms apart (closer than the 25 ms floor that time differences get inside the skills),
    // stacked and far apart, under no mod and Flashlight
    {
        let menu = vec![Setting::nm(), Setting::bits(settings::FL | settings::DT)];
        for cfg in vh::gen::MODE_CFGS.iter().filter(|c| c.src != 3) {
            let alpha = gen::Alphabet::product(&[gen::Kind::Circle, gen::Kind::Slider2], &[0, 10, 150], &[gen::PosK::Same, gen::PosK::Far], &[0], &[0]);
            let n = ctx.pick(3u32, 4);
            let skip = alpha.count_upto(1);
            ctx.universe(&format!("near-simultaneous/{}to{}/N<={n}/|A|={}", cfg.src, cfg.dst, alpha.len()), alpha.count_upto(n) - skip, |idx, l| {
                let spec = gen::MapSpec::new(cfg.src, alpha.seq(idx + skip, n));
                let map = spec.decode();
                check_map(l, *cfg, &spec, &map, &menu);
            });
        }
    }
    // native mania files with notes on and beyond the playfield borders (x = 512 is the right border itself): every x maps to
    // some column, and the ratings still follow from the peaks
    {
        let xs: [i32; 6] = [-40, 0, 255, 511, 512, 640];
        let cfg = gen::ModeCfg { src: 3, dst: 3 };
        let menu = vec![Setting::nm(), Setting::bits(settings::KEY7)];
        ctx.universe("mania-border-positions/3to3", (xs.len() * xs.len() * 2) as u64, |idx, l| {
            let (a, b, long) = (xs[idx as usize % 6], xs[(idx as usize / 6) % 6], idx as usize / 36 == 1);
            let second = if long { format!("{b},192,1150,128,0,1500:0:0:0:0:") } else { format!("{b},192,1150,1,0,0:0:0:0:") };
            let text = format!("osu file format v14\n\n[General]\nMode: 3\n\n[Difficulty]\nHPDrainRate:5\nCircleSize:4\nOverallDifficulty:7\nApproachRate:8\nSliderMultiplier:1.4\nSliderTickRate:1\n\n[TimingPoints]\n0,500,4,2,0,60,1,0\n\n[HitObjects]\n{a},192,1000,1,0,0:0:0:0:\n{second}\n{a},192,1300,1,0,0:0:0:0:\n{b},192,1450,1,0,0:0:0:0:\n");
            let map = Beatmap::from_bytes(text.as_bytes()).expect("decodes");
            // (a violation report shows this nominal, empty spec; the decoded text is a function of the case index and is printed
            // when the case is replayed)
            let spec = gen::MapSpec::new(3, Vec::new());
            if l.ctx.replay.is_some() {
                println!("mania-border-positions case {idx}: x1={a} x2={b} long={long}\n--- .osu ---\n{text}");
            }
            check_map(l, cfg, &spec, &map, &menu);
        });
    }
    let n_max = ctx.pick(3, 4);
    for first_start in [1000, -500, 0, 400] {
        let mut opts = UniOpts::new(n_max);
        opts.gaps = vec![150, 400, 1000, 7000];
        opts.first_start = first_start;
        opts.tag = format!("/start{first_start}");
        if ctx.quick() {
            opts.poss = vec![gen::PosK::Far];
            opts.mania_cols = vec![0];
        }
        let rich = !ctx.quick();
        for u in opts.build() {
            let menu = settings_menu(u.cfg.dst, rich);
            ctx.universe(&u.name, u.total, |idx, l| {
                let (spec, map) = u.decode(idx);
                u.sample(l, idx, &spec, "settings menu x every prefix");
                check_map(l, u.cfg, &spec, &map, &menu);
            });
        }
    }
    ctx.finish();
}
