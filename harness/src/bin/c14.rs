//! C14 — reported object counts and max combo account for exactly the objects of the map.

use rosu_pp::{any::DifficultyAttributes, model::hit_object::HitObjectKind, Beatmap, Difficulty};
use std::ops::Not as _;

use vh::{
    api,
    cmp::same,
    gen,
    refs::kind_counts,
    settings::{self, ModSpec},
    uni::UniOpts,
    Ctx,
};

fn mods_menu(dst: u8, rich: bool) -> Vec<ModSpec> {
    let mut v = vec![ModSpec::Bits(0), ModSpec::Bits(settings::HR), ModSpec::Bits(settings::DT)];
    match dst {
        0 => {
            v.push(ModSpec::Mirror(None));
            v.push(ModSpec::Mirror(Some("2")));
            if rich {
                v.push(ModSpec::Mirror(Some("1")));
                v.push(ModSpec::LazerHr);
                v.push(ModSpec::Bits(settings::EZ));
            }
        }
        2 => v.push(ModSpec::Mirror(None)),
        3 => {
            v.extend([ModSpec::Bits(settings::KEY4), ModSpec::Bits(settings::KEY7), ModSpec::HoldOff, ModSpec::Invert, ModSpec::HoIn(None)]);
            // the same mods mode-less and by reference, next to legacy mods that occupy two bits (NC = NC|DT, PF = PF|SD)
            v.extend([ModSpec::IntermodeRef("HO"), ModSpec::IntermodeRef("NCHO"), ModSpec::IntermodeRef("PFHO"), ModSpec::IntermodeRef("DTHO"), ModSpec::IntermodeRef("NCIN"), ModSpec::IntermodeRef("NCPFHO")]);
            if rich {
                v.extend([ModSpec::Bits(settings::KEY1), ModSpec::Bits(settings::KEY9), ModSpec::TenKeys, ModSpec::Random(Some(7.0))]);
            }
        }
        _ => {}
    }
    v
}

/// The counted amount of attributes, in the unit `passed_objects` counts for the mode.
fn counted(a: &DifficultyAttributes) -> u32 {
    match a {
        DifficultyAttributes::Osu(a) => a.n_circles + a.n_sliders + a.n_spinners,
        DifficultyAttributes::Taiko(a) => a.max_combo,
        DifficultyAttributes::Catch(a) => a.n_fruits + a.n_droplets,
        DifficultyAttributes::Mania(a) => a.n_objects,
    }
}

fn counts_vec(a: &DifficultyAttributes) -> Vec<u32> {
    match a {
        DifficultyAttributes::Osu(a) => vec![a.n_circles, a.n_sliders, a.n_spinners, a.n_large_ticks, a.max_combo],
        DifficultyAttributes::Taiko(a) => vec![a.max_combo],
        DifficultyAttributes::Catch(a) => vec![a.n_fruits, a.n_droplets, a.n_tiny_droplets],
        DifficultyAttributes::Mania(a) => vec![a.n_objects, a.n_hold_notes, a.max_combo],
    }
}

fn is_convert(a: &DifficultyAttributes) -> Option<bool> {
    match a {
        DifficultyAttributes::Osu(_) => None,
        DifficultyAttributes::Taiko(a) => Some(a.is_convert),
        DifficultyAttributes::Catch(a) => Some(a.is_convert),
        DifficultyAttributes::Mania(a) => Some(a.is_convert),
    }
}

fn main() {
    let ctx = Ctx::from_env("C14");
    ctx.rule("case = (mode configuration, grammar map; osu! maps and their converts also under tick rates 2 and 8 with other slider velocities); per case: mods menu (NM, HR, DT, Mirror variants, key mods, HoldOff, Invert, ...) x n in 0..=total+2; oracle = an independent counter over the converted Beatmap: osu circles/sliders/spinners of the prefix, taiko max_combo = hits, mania n_objects / n_hold_notes (HoldOff -> 0 holds), catch fruits = circles + slider heads + repeats + tails (full map); counted amount = min(n, total); every count non-decreasing in n; n > total gives the same attributes as not limiting; is_convert <=> converted; universe 'text-lines-vs-counts': every object line of the written text, with integer and with fractional start times and positions, is one object of its kind in the decoded map and in the native attributes; non-trivial = map has objects");

    let n_max = ctx.pick(4, 5);
    let mut opts = UniOpts::new(n_max);
    opts.kinds_std = vec![gen::Kind::Circle, gen::Kind::Slider1, gen::Kind::Slider2, gen::Kind::Spinner(600), gen::Kind::SliderZeroRep];
    // (a hold note of zero length is still a hold note; one of 100 ms ends exactly where a note 100 ms later starts)
    opts.kinds_mania = vec![gen::Kind::Circle, gen::Kind::Hold(0), gen::Kind::Hold(100), gen::Kind::Hold(300)];
    opts.gaps = vec![0, 100, 400];
    if ctx.quick() {
        opts.poss = vec![gen::PosK::Far];
    }
    let rich = !ctx.quick();
    // the default preset for every mode configuration; osu! maps and their converts also under 2 ticks per beat and under 8 ticks
    // per beat with fast sliders (how many objects a slider becomes in taiko / catch depends on both), N <= 3, longer sliders
    let mut unis = opts.build();
    for (preset, tag) in [(gen::DiffPreset::D3, "/2-ticks"), (gen::DiffPreset::D2, "/8-ticks-fast-sliders")] {
        let mut o2 = UniOpts::new(3);
        o2.cfgs = (0..4).map(|d| gen::ModeCfg { src: 0, dst: d }).collect();
        o2.kinds_std = vec![gen::Kind::Circle, gen::Kind::Slider1, gen::Kind::Slider2, gen::Kind::SliderLong, gen::Kind::Slider5];
        o2.gaps = vec![100, 400];
        o2.poss = vec![gen::PosK::Far];
        o2.diff = preset;
        o2.tag = tag.into();
        unis.extend(o2.build());
    }
    for u in unis {
        let menu = mods_menu(u.cfg.dst, rich && u.name.contains("ticks").not());
        ctx.universe(&u.name, u.total, |idx, l| {
            let (spec, map) = u.decode(idx);
            u.sample(l, idx, &spec, "mods menu x n in 0..=total+2");
            let dst = u.cfg.dst;
            let mode = gen::game_mode(dst);
            if !map.hit_objects.is_empty() {
                l.nontrivial();
            }
            for m in &menu {
                let mods = m.build(mode);
                let d = Difficulty::new().mods(mods.clone());
                let conv: Beatmap = map.clone().convert(mode, &mods).expect("convertible");
                let full = api::difficulty(&d, &map, dst).expect("convertible");
                let total = counted(&full);
                let ctxs = |extra: String| format!("cfg={:?} mods={m:?}\n{extra}\nspec={}\n--- .osu ---\n{}", u.cfg, spec.describe(), spec.text());
                l.states(u64::from(total) + 3);

                // is_convert
                if let Some(flag) = is_convert(&full) {
                    l.checked(1);
                    if flag != (u.cfg.src != dst) {
                        l.violation("is_convert", || ctxs(format!("is_convert={flag} but converted={}", u.cfg.src != dst)));
                        return;
                    }
                }
                // independent totals over the converted map
                let (c, s, sp, h) = kind_counts(&conv, usize::MAX);
                let want_total = match dst {
                    0 => c + s + sp,
                    1 => c,
                    3 => conv.hit_objects.len() as u32,
                    _ => total, // catch: palpable objects, checked through fruits below
                };
                l.checked(1);
                // Invert rebuilds the object list inside the calculation (the last note of a column has no successor to hold to)
                if dst != 2 && !matches!(m, ModSpec::Invert | ModSpec::HoIn(_)) && !m.has_acronym("IN") && total != want_total {
                    l.violation("total", || ctxs(format!("full calculation counts {total} but the converted map has {want_total}: {full:?}")));
                    return;
                }
                match &full {
                    DifficultyAttributes::Catch(a) => {
                        let mut fruits = c;
                        for ho in &conv.hit_objects {
                            if let HitObjectKind::Slider(sl) = &ho.kind {
                                fruits += sl.repeats as u32 + 2;
                            }
                        }
                        l.checked(1);
                        if a.n_fruits != fruits {
                            l.violation("catch_fruits", || ctxs(format!("n_fruits={} but circles + slider heads + repeats + tails = {fruits}", a.n_fruits)));
                            return;
                        }
                    }
                    DifficultyAttributes::Mania(a) => {
                        if matches!(m, ModSpec::HoldOff) || m.has_acronym("HO") {
                            if a.n_hold_notes != 0 {
                                l.violation("holdoff", || ctxs(format!("HoldOff but n_hold_notes={}", a.n_hold_notes)));
                                return;
                            }
                        } else if !matches!(m, ModSpec::Invert | ModSpec::HoIn(_)) && !m.has_acronym("IN") {
                            l.checked(1);
                            if a.n_hold_notes != s + sp + h {
                                l.violation("mania_holds", || ctxs(format!("n_hold_notes={} but the converted map has {} long notes", a.n_hold_notes, s + sp + h)));
                                return;
                            }
                        }
                    }
                    _ => {}
                }

                let mut prev: Option<Vec<u32>> = None;
                for n in 0..=total + 2 {
                    let a = api::difficulty(&d.clone().passed_objects(n), &map, dst).expect("convertible");
                    l.checked(1);
                    let cnt = counted(&a);
                    if cnt != n.min(total) {
                        l.violation("min_n_total", || ctxs(format!("passed_objects({n}): counted amount {cnt} but min(n, total) = {}: {a:?}", n.min(total))));
                        return;
                    }
                    let cv = counts_vec(&a);
                    if let Some(p) = &prev {
                        if cv.iter().zip(p).any(|(x, y)| x < y) {
                            l.violation("monotone", || ctxs(format!("counts decreased from n={} to n={n}: {p:?} -> {cv:?}", n - 1)));
                            return;
                        }
                    }
                    // per-kind split of the prefix (osu)
                    if let DifficultyAttributes::Osu(o) = &a {
                        let (pc, ps, psp, _) = kind_counts(&conv, n as usize);
                        if (o.n_circles, o.n_sliders, o.n_spinners) != (pc, ps, psp) {
                            l.violation("osu_split", || ctxs(format!("passed_objects({n}): ({},{},{}) but prefix has ({pc},{ps},{psp})", o.n_circles, o.n_sliders, o.n_spinners)));
                            return;
                        }
                    }
                    if let DifficultyAttributes::Mania(ma) = &a {
                        if !matches!(m, ModSpec::HoldOff | ModSpec::Invert | ModSpec::Random(_) | ModSpec::HoIn(_) | ModSpec::IntermodeRef(_)) {
                            let (_, ps, psp, ph) = kind_counts(&conv, n as usize);
                            if ma.n_hold_notes != ps + psp + ph {
                                l.violation("mania_split", || ctxs(format!("passed_objects({n}): n_hold_notes={} but prefix has {}", ma.n_hold_notes, ps + psp + ph)));
                                return;
                            }
                        }
                    }
                    if n > total && !same(&a, &full) {
                        l.violation("beyond_total", || ctxs(format!("passed_objects({n}) > total {total} differs from the unlimited calculation\n limited  : {a:?}\n unlimited: {full:?}")));
                        return;
                    }
                    prev = Some(cv);
                }
            }
        });
    }
    // what the file lists is what gets counted: every object line of the written text (integer and fractional start times
    // and positions) is one object of its kind in the decoded map and in the native attributes
    {
        let mut opts = UniOpts::new(ctx.pick(3, 4));
        opts.cfgs = (0..4).map(|m| gen::ModeCfg { src: m, dst: m }).collect();
        opts.kinds_std = vec![gen::Kind::Circle, gen::Kind::Slider2, gen::Kind::Spinner(600)];
        opts.kinds_mania = vec![gen::Kind::Circle, gen::Kind::Hold(300)];
        opts.gaps = vec![0, 150];
        opts.poss = vec![gen::PosK::Far];
        opts.tag = "/text-lines-vs-counts".into();
        for u in opts.build() {
            ctx.universe(&u.name, u.total * 2, |idx, l| {
                let spec = gen::MapSpec { frac_tenths: [0u8, 5][(idx % 2) as usize], ..u.spec(idx / 2) };
                let text = spec.text();
                let mut listed = (0u32, 0u32, 0u32, 0u32);
                for line in text.split_once("[HitObjects]\n").map_or("", |x| x.1).lines() {
                    match line.split(',').nth(3).and_then(|t| t.parse::<u32>().ok()) {
                        Some(t) if t & 1 != 0 => listed.0 += 1,
                        Some(t) if t & 2 != 0 => listed.1 += 1,
                        Some(t) if t & 8 != 0 => listed.2 += 1,
                        Some(t) if t & 128 != 0 => listed.3 += 1,
                        _ => {}
                    }
                }
                let map = spec.decode();
                l.states(1);
                l.checked(2);
                if listed != (0, 0, 0, 0) {
                    l.nontrivial();
                }
                u.sample(l, idx / 2, &spec, "object lines of the text vs decoded kinds vs native attribute counts");
                let decoded = kind_counts(&map, usize::MAX);
                if decoded != listed {
                    l.violation("listed_vs_decoded", || format!("the text lists (circles, sliders, spinners, holds) = {listed:?} but the decoded map has {decoded:?}\nspec={}\n--- .osu ---\n{text}", spec.describe()));
                    return;
                }
                let a = api::difficulty(&Difficulty::new(), &map, u.cfg.dst).expect("native");
                let want = match u.cfg.dst {
                    0 => listed.0 + listed.1 + listed.2,
                    1 => listed.0,
                    3 => listed.0 + listed.3,
                    _ => counted(&a),
                };
                if counted(&a) != want {
                    l.violation("listed_vs_counted", || format!("the text lists {listed:?} (circles, sliders, spinners, holds) but the attributes count {}: {a:?}\nspec={}\n--- .osu ---\n{text}", counted(&a), spec.describe()));
                }
            });
        }
    }

    // format versions: counting rules change at version 8 (slider tick distance) and nowhere else between 5 and 14 — maps
    // with ticked sliders under a doubled slider velocity must count alike within {5, 6, 7} and within {8, 9, 10, 14}
    {
        let mut opts = UniOpts::new(2);
        opts.cfgs = vec![gen::ModeCfg { src: 0, dst: 0 }, gen::ModeCfg { src: 0, dst: 2 }, gen::ModeCfg { src: 2, dst: 2 }];
        opts.kinds_std = vec![gen::Kind::Circle, gen::Kind::SliderLong, gen::Kind::Slider5, gen::Kind::Slider2];
        opts.gaps = vec![150, 1000];
        opts.poss = vec![gen::PosK::Far];
        for timing in [gen::Timing::T1, gen::Timing::T7, gen::Timing::T0] {
            for preset in [gen::DiffPreset::D0, gen::DiffPreset::D3] {
                opts.timing = timing;
                opts.diff = preset;
                opts.tag = format!("/version-classes/{timing:?}/{preset:?}");
                for u in opts.build() {
                    ctx.universe(&u.name, u.total, |idx, l| {
                        let base = u.spec(idx);
                        l.states(1);
                        l.nontrivial();
                        for class in [&[5u32, 6, 7][..], &[8, 9, 10, 14][..]] {
                            let mut first: Option<(u32, Vec<u32>, u32)> = None;
                            for &v in class {
                                let spec = gen::MapSpec { version: v, ..base.clone() };
                                let map = spec.decode();
                                let a = api::difficulty(&Difficulty::new(), &map, u.cfg.dst).expect("convertible");
                                l.checked(1);
                                let got = (v, counts_vec(&a), a.max_combo());
                                match &first {
                                    None => first = Some(got),
                                    Some(f) => {
                                        if (f.1.clone(), f.2) != (got.1.clone(), got.2) {
                                            l.violation("version_class", || format!("cfg={:?}: format version {} counts {:?} / max combo {}, version {} counts {:?} / max combo {} — the counting rules do not differ between them\nspec={}\n--- .osu ---\n{}", u.cfg, f.0, f.1, f.2, got.0, got.1, got.2, spec.describe(), spec.text()));
                                            return;
                                        }
                                    }
                                }
                            }
                        }
                    });
                }
            }
        }
    }
    ctx.finish();
}
