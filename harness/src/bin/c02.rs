//! C02 — gradual difficulty equals difficulty of the played prefix.
//!
//! E1 shape enumeration: every map of <= N objects over the alphabet x 7 mode configurations x
//! setting menu; oracle = one-shot calculation with passed_objects(i).

use rosu_pp::{any::DifficultyAttributes, Beatmap, Difficulty};
use vh::{
    api,
    cmp::same,
    gen::{self, Alphabet, Kind, MapSpec, ModeCfg, PosK, MODE_CFGS},
    json::J,
    settings::{self, Setting},
    Ctx, Local,
};

fn classify(cfg: ModeCfg, map: &Beatmap, what: &str) -> String {
    let _ = map;
    format!("{}to{}_{what}", cfg.src, cfg.dst)
}

fn check_case(l: &mut Local<'_>, cfg: ModeCfg, map: &Beatmap, settings: &[Setting], desc: &dyn Fn() -> String) {
    let dst_mode = gen::game_mode(cfg.dst);
    for (si, s) in settings.iter().enumerate() {
        let d: Difficulty = s.difficulty(dst_mode);
        let Ok(mut g) = api::gradual(d.clone(), map, cfg.dst) else {
            l.violation("ctor_err", || format!("{}\nsetting={s:?}\ngradual constructor failed", desc()));
            return;
        };
        let announced = g.len();
        let mut vals: Vec<DifficultyAttributes> = Vec::new();
        // hard bound against a calculator that never ends (converts and catch produce several values per object)
        let bound = announced.max(256 * (map.hit_objects.len() + 1)) + 2;
        while let Some(v) = g.next() {
            vals.push(v);
            if vals.len() > bound {
                break;
            }
        }
        l.states(vals.len() as u64 + 1);
        if vals.len() != announced {
            let class = classify(cfg, map, "len");
            l.violation(&class, || {
                format!("{}\nsetting={s:?}\nannounced len()={announced} but produced {} values", desc(), vals.len())
            });
            return;
        }
        l.checked(1);
        for (i, v) in vals.iter().enumerate() {
            let one = api::difficulty(&d.clone().passed_objects(i as u32 + 1), map, cfg.dst).expect("convertible");
            l.checked(1);
            if !same(v, &one) {
                let class = classify(cfg, map, "prefix");
                l.violation(&class, || {
                    format!(
                        "{}\nsetting={s:?}\nvalue #{} of gradual differs from one-shot passed_objects({})\n gradual : {v:?}\n one-shot: {one:?}",
                        desc(),
                        i + 1,
                        i + 1
                    )
                });
                return;
            }
            if v.stars() > 0.0 {
                l.nontrivial();
            }
        }
        let full = api::difficulty(&d, map, cfg.dst).expect("convertible");
        l.checked(1);
        match vals.last() {
            Some(last) => {
                if !same(last, &full) {
                    let class = classify(cfg, map, "final");
                    l.violation(&class, || {
                        format!(
                            "{}\nsetting={s:?}\nfinal gradual value differs from the full one-shot calculation\n gradual : {last:?}\n one-shot: {full:?}",
                            desc()
                        )
                    });
                    return;
                }
            }
            None => {}
        }
        // the Difficulty handed to the constructor may itself carry passed_objects(k). What the calculator then covers is not
        // part of the property (osu!, taiko and catch ignore k, mania stops after k objects — the property quantifies over
        // mods, rates and overrides, with passed_objects as the prefix parameter), but whatever it covers it must produce as
        // many values as it announces and its i-th value must still be the one-shot passed_objects(i) value, i.e. the value
        // of the unlimited calculator
        let n_obj = map.hit_objects.len() as u32;
        // (first setting of the menu only: the limit is orthogonal to mods, rates and overrides)
        let mut ks = if si == 0 { vec![0u32, 1, 2, n_obj.saturating_sub(1), n_obj + 1] } else { Vec::new() };
        ks.sort_unstable();
        ks.dedup();
        for k in ks {
            let dk = d.clone().passed_objects(k);
            let Ok(mut g) = api::gradual(dk, map, cfg.dst) else {
                l.violation("ctor_err", || format!("{}\nsetting={s:?} passed_objects({k})\ngradual constructor failed", desc()));
                return;
            };
            let announced = g.len();
            let mut vk: Vec<DifficultyAttributes> = Vec::new();
            while let Some(v) = g.next() {
                vk.push(v);
                if vk.len() > bound {
                    break;
                }
            }
            l.states(vk.len() as u64 + 1);
            l.checked(2 + vk.len() as u64);
            if vk.len() != announced {
                let class = classify(cfg, map, "limited_len");
                l.violation(&class, || format!("{}\nsetting={s:?} + passed_objects({k}) handed to the gradual constructor\nannounced len()={announced} but produced {} values", desc(), vk.len()));
                return;
            }
            if vk.len() > vals.len() || vk.iter().zip(&vals).any(|(a, b)| !same(a, b)) {
                let class = classify(cfg, map, "limited_prefix");
                let i = vk.iter().zip(&vals).position(|(a, b)| !same(a, b)).unwrap_or(vals.len());
                l.violation(&class, || format!("{}\nsetting={s:?} + passed_objects({k}) handed to the gradual constructor\n{} values, the unlimited calculator yields {}; first difference at value #{}\n limited  : {:?}\n unlimited: {:?}", desc(), vk.len(), vals.len(), i + 1, vk.get(i), vals.get(i)));
                return;
            }
        }
    }
}

fn main() {
    let ctx = Ctx::from_env_caps("C02", 55, 1500);
    ctx.rule(
        "case = (mode configuration, map text generated by the shape grammar); every case runs the full gradual walk for each setting of the menu and compares every value with the one-shot passed_objects(i) calculation; non-trivial = at least one compared value has stars > 0",
    );
    ctx.assume("maps are those generated by the grammar bound stated in coverage.universes; a Difficulty that itself carries passed_objects(k) is handed to the gradual constructor for k in {0, 1, 2, N-1, N+1}: only len() == values produced and value_i == one-shot passed_objects(i) are required of it, not where it ends");

    // cheapest universes first (the wall cap may only ever cut the largest one short)
    // fixture prefixes: start from non-initial shapes too
    let fx = gen::fixture_paths();
    let pref_max: u64 = ctx.pick(12, 40);
    for (path, mode) in fx {
        let cfgs: Vec<ModeCfg> = MODE_CFGS.iter().copied().filter(|c| c.src == mode).collect();
        let name = format!("fixture-prefix/{}", path.rsplit('/').next().unwrap_or(path));
        let total = pref_max * cfgs.len() as u64;
        ctx.universe(&name, total, |idx, l| {
            let cfg = cfgs[(idx / pref_max) as usize];
            let n = (idx % pref_max) as usize + 1;
            let Some(map) = gen::fixture_prefix(path, n) else {
                l.ctx.machinery_error(format!("fixture {path} unreadable"));
                return;
            };
            let setts = [Setting::nm(), Setting::bits(settings::HR | settings::DT), Setting { rate: Some(0.75), ..Setting::nm() }];
            check_case(l, cfg, &map, &setts, &|| format!("cfg={cfg:?} fixture={path} first {n} objects"));
        });
    }

    // windows inside the fixtures: 12 consecutive objects at every offset that is a multiple of 32 (thorough: 8)
    for (path, mode) in fx {
        let cfgs: Vec<ModeCfg> = MODE_CFGS.iter().copied().filter(|c| c.src == mode).collect();
        let n_obj = Beatmap::from_path(path).map(|m| m.hit_objects.len()).unwrap_or(0);
        let starts: Vec<usize> = (0..n_obj).step_by(ctx.pick(32, 8)).collect();
        let name = format!("fixture-window/{}/12-objects", path.rsplit('/').next().unwrap_or(path));
        ctx.universe(&name, (starts.len() * cfgs.len()) as u64, |idx, l| {
            let cfg = cfgs[idx as usize / starts.len()];
            let start = starts[idx as usize % starts.len()];
            let Some(map) = gen::fixture_window(path, start, 12) else {
                l.ctx.machinery_error(format!("fixture {path} unreadable"));
                return;
            };
            let setts = [Setting::nm(), Setting::bits(settings::HR | settings::DT), Setting { rate: Some(0.75), cs: Some((6.5, false)), ..Setting::nm() }];
            check_case(l, cfg, &map, &setts, &|| format!("cfg={cfg:?} fixture={path} objects {start}..{}", start + 12));
        });
    }
    // periodic longer maps: every motif of <= 2 objects (hit sounds and stacked / far positions included) repeated 6 times
    // (thorough: <= 3 objects x 5) — state carried from object to object (colour / rhythm patterns, stacking, combo)
    for cfg in MODE_CFGS.iter() {
        let (mlen, reps) = ctx.pick((2u32, 6u32), (3, 5));
        let alpha = if cfg.src == 3 {
            Alphabet::product(&[Kind::Circle, Kind::Hold(100), Kind::Hold(300)], &[110, 250], &[PosK::Same], &[0], &[0, 1, 2])
        } else {
            Alphabet::product(&[Kind::Circle, Kind::Slider2, Kind::Spinner(600)], &[110, 250], &[PosK::Same, PosK::Far], &[0, 8], &[0])
        };
        let total = alpha.count_upto(mlen) - 1;
        let name = format!("motif/{}to{}/len<={mlen}-x{reps}/|A|={}", cfg.src, cfg.dst, alpha.len());
        let setts = [Setting::nm(), Setting::bits(settings::HR | settings::DT), Setting { rate: Some(0.75), ..Setting::bits(settings::EZ) }];
        ctx.universe(&name, total, |idx, l| {
            let spec = MapSpec { repeat: reps, diff: gen::DiffPreset::D4, ..MapSpec::new(cfg.src, alpha.seq(idx + 1, mlen)) };
            let map = spec.decode();
            if l.want_sample() {
                let mut o = J::obj();
                o.set("universe", J::s(name.clone()));
                o.set("index", J::i(idx));
                o.set("map_spec", J::s(spec.describe()));
                l.sample(o);
            }
            check_case(l, *cfg, &map, &setts, &|| format!("cfg={cfg:?}\nspec={}\n--- .osu ---\n{}", spec.describe(), spec.text()));
        });
    }
    // rhythm motifs (interval ratios above 16x)
    for mu in vh::uni::rhythm_universes(&MODE_CFGS, 3, 3).into_iter().chain(if ctx.quick() { Vec::new() } else { vh::uni::rhythm_universes_wide(&MODE_CFGS) }) {
        let setts = [Setting::nm(), Setting::bits(settings::DT), Setting { rate: Some(0.75), ..Setting::nm() }];
        ctx.universe(&mu.name, mu.total, |idx, l| {
            let spec = mu.spec(idx);
            let map = spec.decode();
            check_case(l, mu.cfg, &map, &setts, &|| format!("cfg={:?}\nspec={}\n--- .osu ---\n{}", mu.cfg, spec.describe(), spec.text()));
        });
    }
    // marathon maps: a hard opening (40 notes 100 ms apart) and an easy tail of 1080 notes 400 ms apart — more than 1024
    // strain sections, and the decisive peaks are the oldest ones; every prefix of every mode configuration
    {
        let cfgs: Vec<ModeCfg> = MODE_CFGS.to_vec();
        ctx.universe("marathon/40-fast+1080-slow/every-prefix", cfgs.len() as u64, |idx, l| {
            use std::fmt::Write as _;
            let cfg = cfgs[idx as usize];
            let mut t = format!("osu file format v14\n\n[General]\nMode: {}\n\n[Difficulty]\nHPDrainRate:5\nCircleSize:4\nOverallDifficulty:7\nApproachRate:8\nSliderMultiplier:1.4\nSliderTickRate:1\n\n[TimingPoints]\n0,400,4,2,0,60,1,0\n\n[HitObjects]\n", cfg.src);
            let mut time = 1000;
            for i in 0..1120u32 {
                let _ = writeln!(t, "{},192,{time},1,{},0:0:0:0:", [64, 448, 192, 320][(i % 4) as usize], if i % 3 == 0 { 8 } else { 0 });
                time += if i < 40 { 100 } else { 400 };
            }
            let map = Beatmap::from_bytes(t.as_bytes()).expect("decodes");
            check_case(l, cfg, &map, &[Setting::nm()], &|| format!("cfg={cfg:?}\nmarathon map: mode {} file, 40 notes 100 ms apart, then 1080 notes 400 ms apart (x cycling over 64, 448, 192, 320)", cfg.src));
        });
    }
    // native mania with a fractional key count (CircleSize x.5: every calculator has to round it the same way)
    {
        let cfg = ModeCfg { src: 3, dst: 3 };
        let alpha = Alphabet::product(&[Kind::Circle, Kind::Hold(100)], &[0, 150], &[PosK::Same], &[0], &[0, 1, 2]);
        let n_max = 3u32;
        let per = alpha.count_upto(n_max);
        let keys = [4u8, 5, 6, 7];
        let setts = [Setting::nm(), Setting::bits(settings::DT)];
        ctx.universe("mania-half-keys/3to3/N<=3", per * keys.len() as u64, |idx, l| {
            let spec = MapSpec { keys: keys[(idx / per) as usize], cs_tenths: 5, ..MapSpec::new(3, alpha.seq(idx % per, n_max)) };
            let map = spec.decode();
            check_case(l, cfg, &map, &setts, &|| format!("cfg={cfg:?}\nspec={}\n--- .osu ---\n{}", spec.describe(), spec.text()));
        });
    }
    // the slowest timing (1 BPM): sliders last tens of seconds and carry hundreds of nested objects between two events
    for cfg in MODE_CFGS.iter().filter(|c| c.src != 3) {
        let alpha = Alphabet::product(&[Kind::Circle, Kind::Slider1, Kind::Slider2], &[1000, gen::END_REL + 1000], &[PosK::Far], &[0], &[0]);
        let n_max = 2u32;
        let setts = [Setting::nm(), Setting::bits(settings::HR | settings::DT)];
        let name = format!("slowest-timing/{}to{}/N<=2", cfg.src, cfg.dst);
        ctx.universe(&name, alpha.count_upto(n_max), |idx, l| {
            let spec = MapSpec { timing: gen::Timing::T8, ..MapSpec::new(cfg.src, alpha.seq(idx, n_max)) };
            let map = spec.decode();
            check_case(l, *cfg, &map, &setts, &|| format!("cfg={cfg:?}\nspec={}\n--- .osu ---\n{}", spec.describe(), spec.text()));
        });
    }
    // one long object followed by a stream of 8 circles that either overlaps it in time or follows it
    for cfg in MODE_CFGS.iter().filter(|c| c.src != 3) {
        let kinds = [Kind::Slider5, Kind::SliderLong, Kind::Slider2, Kind::Spinner(600), Kind::Circle];
        let styles: [u8; 6] = [0, 1, 2, 3, 4, 5];
        let spacings = [60u32, 125];
        let total = (kinds.len() * styles.len() * spacings.len()) as u64;
        let name = format!("object+stream/{}to{}", cfg.src, cfg.dst);
        let setts = [Setting::nm(), Setting::bits(settings::HR | settings::DT), Setting { rate: Some(0.75), ..Setting::bits(settings::EZ) }];
        ctx.universe(&name, total, |idx, l| {
            let k = kinds[idx as usize % kinds.len()];
            let r = idx as usize / kinds.len();
            let spec = MapSpec { stream: (8, spacings[r / styles.len()]), stream_style: styles[r % styles.len()], diff: gen::DiffPreset::D3, ..MapSpec::new(cfg.src, vec![gen::Obj { kind: k, gap: 0, pos: PosK::Far, sound: 0, col: 0 }]) };
            let map = spec.decode();
            check_case(l, *cfg, &map, &setts, &|| format!("cfg={cfg:?}\nspec={}\n--- .osu ---\n{}", spec.describe(), spec.text()));
        });
    }
    for (ci, cfg) in MODE_CFGS.iter().enumerate() {
        // mania's alphabet is twice as large (columns): one object less
        let n_max: u32 = if cfg.src == 3 { ctx.pick(3, 4) } else { ctx.pick(4, 5) };
        let kinds = if cfg.src == 3 {
            vec![Kind::Circle, Kind::Hold(100), Kind::Hold(300)]
        } else if ctx.quick() {
            vec![Kind::Circle, Kind::Slider2, Kind::Spinner(600)]
        } else {
            vec![Kind::Circle, Kind::Slider1, Kind::Slider2, Kind::Spinner(600)]
        };
        let alpha = Alphabet::product(&kinds, &[0, 150, 1000], &[PosK::Same, PosK::Far], &[0], &[0, 2]);
        // mania uses columns, other modes ignore them: drop the column dimension there
        let alpha = if cfg.src == 3 {
            alpha
        } else {
            Alphabet::product(&kinds, &[0, 150, 1000], &[PosK::Same, PosK::Far], &[0], &[0])
        };
        let setts = if ctx.quick() { settings::star_settings(cfg.dst) } else { settings::standard_settings(cfg.dst, false) };
        // difficulty presets: the default one at full depth; high-CS / extreme presets one resp. two objects shallower
        // (catcher width, stacking and hit-window branches depend on the effective CS / OD / AR)
        for (preset, less) in [(gen::DiffPreset::D0, 0u32), (gen::DiffPreset::D8, 1), (gen::DiffPreset::D2, 2), (gen::DiffPreset::D1, 2)] {
            let n = n_max.saturating_sub(less);
            let total = alpha.count_upto(n);
            let name = format!("grammar/{}to{}/{preset:?}/N<={}", cfg.src, cfg.dst, n);
            ctx.universe(&name, total, |idx, l| {
                let objs = alpha.seq(idx, n);
                let spec = MapSpec { diff: preset, ..MapSpec::new(cfg.src, objs) };
                let map = spec.decode();
                if l.want_sample() {
                    let mut o = J::obj();
                    o.set("universe", J::s(name.clone()));
                    o.set("index", J::i(idx));
                    o.set("map_spec", J::s(spec.describe()));
                    o.set("settings_in_menu", J::i(setts.len() as u64));
                    l.sample(o);
                }
                check_case(l, *cfg, &map, &setts, &|| format!("cfg={cfg:?}\nspec={}\n--- .osu ---\n{}", spec.describe(), spec.text()));
            });
        }
        let _ = ci;
    }

    ctx.finish();
}
