//! C04 — reusing computed attributes gives the same performance as using the map.
//!
//! E1: maps x Difficulty settings (incl. passed_objects) x score specifications x every entry point.

use rosu_pp::{
    any::{DifficultyAttributes, HitResultPriority, PerformanceAttributes, ScoreState},
    catch::CatchPerformance,
    mania::ManiaPerformance,
    osu::OsuPerformance,
    taiko::TaikoPerformance,
    Beatmap, Difficulty, GameMods, Performance,
};
use vh::{
    cmp::same,
    gen,
    settings::{self, ModSpec, Setting},
    uni::UniOpts,
    Ctx,
};

#[derive(Clone, Debug)]
struct Score {
    acc: Option<f64>,
    combo: Option<u32>,
    misses: Option<u32>,
    n300: Option<u32>,
    n100: Option<u32>,
    n50: Option<u32>,
    katu: Option<u32>,
    geki: Option<u32>,
    worst: bool,
    ticks: Option<(u32, u32, u32)>,
    state: Option<ScoreState>,
}

impl Score {
    const fn none() -> Self {
        Self { acc: None, combo: None, misses: None, n300: None, n100: None, n50: None, katu: None, geki: None, worst: false, ticks: None, state: None }
    }

    fn apply<'a>(&self, mut p: Performance<'a>) -> Performance<'a> {
        if let Some(s) = &self.state {
            p = p.state(s.clone());
        }
        if let Some(a) = self.acc {
            p = p.accuracy(a);
        }
        if let Some(c) = self.combo {
            p = p.combo(c);
        }
        if let Some(v) = self.misses {
            p = p.misses(v);
        }
        if let Some(v) = self.n300 {
            p = p.n300(v);
        }
        if let Some(v) = self.n100 {
            p = p.n100(v);
        }
        if let Some(v) = self.n50 {
            p = p.n50(v);
        }
        if let Some(v) = self.katu {
            p = p.n_katu(v);
        }
        if let Some(v) = self.geki {
            p = p.n_geki(v);
        }
        if self.worst {
            p = p.hitresult_priority(HitResultPriority::WorstCase);
        }
        if let Some((l, s, e)) = self.ticks {
            p = p.large_tick_hits(l).small_tick_hits(s).slider_end_hits(e);
        }
        p
    }
}

fn scores(n: u32, rich: bool) -> Vec<Score> {
    let mut v = vec![
        Score::none(),
        Score { acc: Some(100.0), ..Score::none() },
        Score { acc: Some(97.3), ..Score::none() },
        Score { acc: Some(50.0), misses: Some(1), ..Score::none() },
        Score { combo: Some(1), ..Score::none() },
        Score { misses: Some(2), ..Score::none() },
        Score { n100: Some(1), ..Score::none() },
        Score { acc: Some(90.0), worst: true, ..Score::none() },
        Score { worst: true, ..Score::none() },
        Score { worst: true, misses: Some(1), ..Score::none() },
        Score { ticks: Some((0, 0, 0)), n300: Some(n), ..Score::none() },
    ];
    if rich {
        v.push(Score { acc: Some(0.0), ..Score::none() });
        v.push(Score { n300: Some(1), n50: Some(1), ..Score::none() });
        v.push(Score { katu: Some(1), geki: Some(1), acc: Some(95.0), ..Score::none() });
        v.push(Score { state: Some(ScoreState { max_combo: n, n300: n, ..ScoreState::new() }), ..Score::none() });
        v.push(Score { state: Some(ScoreState { max_combo: 1, n100: n / 2, misses: n - n / 2, ..ScoreState::new() }), ..Score::none() });
        v.push(Score { ticks: Some((1, 1, 1)), acc: Some(98.0), ..Score::none() });
    }
    v
}

fn difficulties(dst: u8, n: u32, rich: bool) -> Vec<(String, Difficulty)> {
    let mode = gen::game_mode(dst);
    let mut base = vec![
        Setting::nm(),
        Setting::bits(settings::HD | settings::HR | settings::DT),
        Setting { lazer: Some(false), ..Setting::nm() },
        Setting::mods(ModSpec::Classic(None)),
        Setting { rate: Some(1.2), od: Some((9.1, false)), ..Setting::nm() },
        // overrides at the ends of the accepted range (hit windows below zero, approach times beyond the tables)
        Setting { od: Some((20.0, false)), ar: Some((-20.0, false)), cs: Some((20.0, false)), hp: Some((20.0, false)), ..Setting::nm() },
        Setting { od: Some((-20.0, true)), ar: Some((20.0, true)), cs: Some((-20.0, false)), hp: Some((-20.0, false)), ..Setting::bits(settings::DT) },
    ];
    if dst == 3 {
        base.push(Setting::mods(ModSpec::HoldOff));
        base.push(Setting::mods(ModSpec::Invert));
        base.push(Setting::mods(ModSpec::HoIn(None)));
        base.push(Setting::mods(ModSpec::Random(Some(21.0))));
    }
    if dst == 1 {
        base.push(Setting::mods(ModSpec::Random(Some(21.0))));
    }
    if dst == 2 {
        // an explicit hard-rock-offsets choice that contradicts the mods, both ways
        base.push(Setting { hr_offsets: Some(false), ..Setting::bits(settings::HR) });
        base.push(Setting { hr_offsets: Some(true), ..Setting::nm() });
    }
    if rich {
        base.push(Setting::bits(settings::EZ | settings::HT | settings::FL));
        base.push(Setting { lazer: Some(false), ..Setting::mods(ModSpec::Classic(None)) });
        base.push(Setting { ar: Some((10.0, true)), cs: Some((6.5, false)), hp: Some((3.0, false)), ..Setting::bits(settings::RX) });
    }
    let mut out = Vec::new();
    for s in base {
        let d = s.difficulty(mode);
        out.push((format!("{s:?}"), d.clone()));
        for p in [0, 1, n, n + 2] {
            if !rich && p == n {
                continue;
            }
            out.push((format!("{s:?} passed_objects={p}"), d.clone().passed_objects(p)));
        }
    }
    out
}

/// All entry points, each returning a fresh builder for the same (map, attributes).
fn entry_points<'a>(conv: &'a Beatmap, dattrs: &DifficultyAttributes, pattrs: &PerformanceAttributes) -> Vec<(&'static str, Performance<'a>)> {
    let mut v: Vec<(&'static str, Performance<'a>)> = vec![
        ("Performance::new(&map)", Performance::new(conv)),
        ("Performance::new(map)", Performance::new(conv.clone())),
        ("Performance::new(DifficultyAttributes)", Performance::new(dattrs.clone())),
        ("Performance::new(PerformanceAttributes)", Performance::new(pattrs.clone())),
        ("DifficultyAttributes::performance()", dattrs.clone().performance()),
        ("PerformanceAttributes::performance()", pattrs.clone().performance()),
        ("Performance::from(&map)", Performance::from(conv)),
        ("Performance::from(DifficultyAttributes)", Performance::from(dattrs.clone())),
        ("Performance::from(PerformanceAttributes)", Performance::from(pattrs.clone())),
        ("map.performance()", conv.performance()),
        ("Performance::new(PerformanceAttributes.difficulty_attributes())", Performance::new(pattrs.difficulty_attributes())),
        ("Performance::new(DifficultyAttributes::from(PerformanceAttributes))", Performance::new(DifficultyAttributes::from(pattrs.clone()))),
    ];
    match (dattrs, pattrs) {
        (DifficultyAttributes::Osu(d), PerformanceAttributes::Osu(p)) => {
            v.push(("Performance::new(OsuDifficultyAttributes)", Performance::new(d.clone())));
            v.push(("Performance::new(OsuPerformanceAttributes)", Performance::new(p.clone())));
            v.push(("OsuPerformance::new(&map)", Performance::Osu(OsuPerformance::new(conv))));
            v.push(("OsuPerformance::new(map)", Performance::Osu(OsuPerformance::new(conv.clone()))));
            v.push(("OsuPerformance::new(attrs)", Performance::Osu(OsuPerformance::new(d.clone()))));
            v.push(("OsuPerformance::from(perf attrs)", Performance::Osu(OsuPerformance::from(p.clone()))));
            v.push(("OsuDifficultyAttributes::performance()", Performance::Osu(d.clone().performance())));
            v.push(("OsuPerformanceAttributes::performance()", Performance::Osu(p.clone().performance())));
            v.push(("OsuPerformance::try_new(DifficultyAttributes)", Performance::Osu(OsuPerformance::try_new(dattrs.clone()).expect("osu"))));
        }
        (DifficultyAttributes::Taiko(d), PerformanceAttributes::Taiko(p)) => {
            v.push(("Performance::new(TaikoDifficultyAttributes)", Performance::new(d.clone())));
            v.push(("Performance::new(TaikoPerformanceAttributes)", Performance::new(p.clone())));
            v.push(("TaikoPerformance::new(&map)", Performance::Taiko(TaikoPerformance::new(conv))));
            v.push(("TaikoPerformance::new(attrs)", Performance::Taiko(TaikoPerformance::new(d.clone()))));
            v.push(("TaikoPerformance::from(perf attrs)", Performance::Taiko(TaikoPerformance::from(p.clone()))));
            v.push(("TaikoDifficultyAttributes::performance()", Performance::Taiko(d.clone().performance())));
            v.push(("TaikoPerformanceAttributes::performance()", Performance::Taiko(p.clone().performance())));
            v.push(("TaikoPerformance::try_new(PerformanceAttributes)", Performance::Taiko(TaikoPerformance::try_new(pattrs.clone()).expect("taiko"))));
        }
        (DifficultyAttributes::Catch(d), PerformanceAttributes::Catch(p)) => {
            v.push(("Performance::new(CatchDifficultyAttributes)", Performance::new(d.clone())));
            v.push(("Performance::new(CatchPerformanceAttributes)", Performance::new(p.clone())));
            v.push(("CatchPerformance::new(&map)", Performance::Catch(CatchPerformance::new(conv))));
            v.push(("CatchPerformance::new(attrs)", Performance::Catch(CatchPerformance::new(d.clone()))));
            v.push(("CatchPerformance::from(perf attrs)", Performance::Catch(CatchPerformance::from(p.clone()))));
            v.push(("CatchDifficultyAttributes::performance()", Performance::Catch(d.clone().performance())));
            v.push(("CatchPerformanceAttributes::performance()", Performance::Catch(p.clone().performance())));
            v.push(("CatchPerformance::try_new(DifficultyAttributes)", Performance::Catch(CatchPerformance::try_new(dattrs.clone()).expect("catch"))));
        }
        (DifficultyAttributes::Mania(d), PerformanceAttributes::Mania(p)) => {
            v.push(("Performance::new(ManiaDifficultyAttributes)", Performance::new(d.clone())));
            v.push(("Performance::new(ManiaPerformanceAttributes)", Performance::new(p.clone())));
            v.push(("ManiaPerformance::new(&map)", Performance::Mania(ManiaPerformance::new(conv))));
            v.push(("ManiaPerformance::new(attrs)", Performance::Mania(ManiaPerformance::new(d.clone()))));
            v.push(("ManiaPerformance::from(perf attrs)", Performance::Mania(ManiaPerformance::from(p.clone()))));
            v.push(("ManiaDifficultyAttributes::performance()", Performance::Mania(d.clone().performance())));
            v.push(("ManiaPerformanceAttributes::performance()", Performance::Mania(p.clone().performance())));
            v.push(("ManiaPerformance::try_new(PerformanceAttributes)", Performance::Mania(ManiaPerformance::try_new(pattrs.clone()).expect("mania"))));
        }
        _ => {}
    }
    v
}

fn main() {
    let ctx = Ctx::from_env("C04");
    ctx.rule("case = (mode configuration, grammar map); per case: every Difficulty of the menu (5-10 settings x passed_objects in {unset,0,1,[N,]N+2}) x every score specification of the menu x every entry point (generic Performance::new/from with &map, map, DifficultyAttributes, PerformanceAttributes, mode attributes; attrs.performance(); mode-specific builders new/from/try_new) with the same Difficulty supplied again; for converts additionally the calculator of the *source* map (Performance and OsuPerformance, borrowing and owning the map), fully configured and only then switched with try_mode / mode_or_ignore; oracle = identical PerformanceAttributes, embedded difficulty attributes == one-shot difficulty (on the converted map and straight on the source map); results of attribute-based runs are fed back in a second generation; non-trivial = reference pp > 0");
    ctx.assume("the converted map (Beatmap::convert) is 'the map' for converts; conversion consistency itself is C07's business");

    // quick: N <= 3, far positions. thorough: N <= 3 with stacked and far positions plus N <= 4 with far positions, the rich
    // Difficulty and score menus (N <= 4 over both positions with the rich menus takes 25 minutes and more: it does not fit
    // the cap, the run would be reported as capped)
    let mut passes = Vec::new();
    {
        let mut opts = UniOpts::new(3);
        opts.gaps = vec![0, 150, 1000];
        if ctx.quick() {
            opts.poss = vec![vh::gen::PosK::Far];
        }
        opts.diff = vh::gen::DiffPreset::D3;
        passes.extend(opts.build());
        if !ctx.quick() {
            let mut opts = UniOpts::new(4);
            opts.gaps = vec![0, 150, 1000];
            opts.poss = vec![vh::gen::PosK::Far];
            opts.diff = vh::gen::DiffPreset::D3;
            opts.tag = "/far-only".into();
            passes.extend(opts.build());
        }
    }
    for u in passes {
        ctx.universe(&u.name, u.total, |idx, l| {
            let (spec, map) = u.decode(idx);
            u.sample(l, idx, &spec, "Difficulty menu x score menu x ~20 entry points, 2 generations");
            let rich = !l.ctx.quick();
            let n = map.hit_objects.len() as u32;
            for (dname, d) in difficulties(u.cfg.dst, n, rich) {
                // mods are needed for the conversion itself
                let mods: GameMods = {
                    // Difficulty does not expose its mods; rebuild them from the inspectable form
                    d.clone().inspect().mods
                };
                let conv = map.clone().convert(gen::game_mode(u.cfg.dst), &mods).expect("convertible");
                let dattrs = d.calculate(&conv);
                // "one-shot difficulty" has two routes for a convert: on the converted map, and straight on the source map
                if let Ok(direct) = vh::api::difficulty(&d, &map, u.cfg.dst) {
                    l.checked(1);
                    if !same(&direct, &dattrs) {
                        l.violation("one_shot_routes", || format!("cfg={:?}\nspec={}\ndifficulty={dname}\none-shot difficulty straight on the source map differs from one-shot difficulty on the converted map\n source map   : {direct:?}\n converted map: {dattrs:?}\n--- .osu ---\n{}", u.cfg, spec.describe(), spec.text()));
                        return;
                    }
                }
                for sc in scores(n, rich) {
                    let reference = sc.apply(Performance::new(&conv).difficulty(d.clone())).calculate();
                    if reference.pp() > 0.0 {
                        l.nontrivial();
                    }
                    l.states(1);
                    l.checked(1);
                    if !same(&reference.difficulty_attributes(), &dattrs) {
                        l.violation("embedded_attrs", || {
                            format!(
                                "cfg={:?}\nspec={}\ndifficulty={dname}\nscore={sc:?}\nembedded difficulty attributes differ from the one-shot difficulty\n embedded: {:?}\n one-shot: {dattrs:?}\n--- .osu ---\n{}",
                                u.cfg,
                                spec.describe(),
                                reference.difficulty_attributes(),
                                spec.text()
                            )
                        });
                        return;
                    }
                    // the same settings through the calculator's own setters (in the order a Difficulty is described) instead of a
                    // Difficulty value
                    {
                        let i = d.clone().inspect();
                        let mut p = Performance::new(&conv).mods(i.mods.clone());
                        if let Some(v) = i.passed_objects {
                            p = p.passed_objects(v);
                        }
                        if let Some(v) = i.clock_rate {
                            p = p.clock_rate(v);
                        }
                        if let Some(v) = &i.ar {
                            p = p.ar(v.value, v.with_mods);
                        }
                        if let Some(v) = &i.cs {
                            p = p.cs(v.value, v.with_mods);
                        }
                        if let Some(v) = &i.hp {
                            p = p.hp(v.value, v.with_mods);
                        }
                        if let Some(v) = &i.od {
                            p = p.od(v.value, v.with_mods);
                        }
                        if let Some(v) = i.hardrock_offsets {
                            p = p.hardrock_offsets(v);
                        }
                        if let Some(v) = i.lazer {
                            p = p.lazer(v);
                        }
                        let got = sc.apply(p).calculate();
                        l.checked(1);
                        if !same(&got, &reference) {
                            l.violation("own_setters", || {
                                format!(
                                    "cfg={:?}\nspec={}\ndifficulty={dname}\nscore={sc:?}\nPerformance::new(&map) configured through its own setters differs from .difficulty(Difficulty)\n setters   : {got:?}\n difficulty: {reference:?}\n--- .osu ---\n{}",
                                    u.cfg,
                                    spec.describe(),
                                    spec.text()
                                )
                            });
                            return;
                        }
                    }
                    // converts: the whole configuration applied to the calculator of the *source* map, then the mode switch
                    // (n_katu / n_geki / a full state do not exist on an osu! calculator — set there, they are dropped by design,
                    // so such scores are not part of this comparison)
                    if u.cfg.src != u.cfg.dst && sc.katu.is_none() && sc.geki.is_none() && sc.state.is_none() {
                        let mode = gen::game_mode(u.cfg.dst);
                        let via_try = sc.apply(Performance::new(&map).difficulty(d.clone())).try_mode(mode).ok().map(Performance::calculate);
                        let via_ignore = sc.apply(Performance::new(&map).difficulty(d.clone())).mode_or_ignore(mode).calculate();
                        let via_osu = sc.apply(Performance::Osu(OsuPerformance::new(&map)).difficulty(d.clone())).try_mode(mode).ok().map(Performance::calculate);
                        // the same with calculators that own their map (an owned map is converted in place)
                        let own_try = sc.apply(Performance::new(map.clone()).difficulty(d.clone())).try_mode(mode).ok().map(Performance::calculate);
                        let own_ignore = sc.apply(Performance::new(map.clone()).difficulty(d.clone())).mode_or_ignore(mode).calculate();
                        let own_osu = sc.apply(Performance::Osu(OsuPerformance::new(map.clone())).difficulty(d.clone())).try_mode(mode).ok().map(Performance::calculate);
                        l.checked(6);
                        for (ename, got) in [("configured, then try_mode", via_try), ("configured, then mode_or_ignore", Some(via_ignore)), ("OsuPerformance configured, then try_mode", via_osu), ("owned map, configured, then try_mode", own_try), ("owned map, configured, then mode_or_ignore", Some(own_ignore)), ("OsuPerformance owning the map, configured, then try_mode", own_osu)] {
                            if !got.as_ref().is_some_and(|g| same(g, &reference)) {
                                l.violation("configured_then_switched", || {
                                    format!(
                                        "cfg={:?}\nspec={}\ndifficulty={dname}\nscore={sc:?}\n{ename}: the calculator of the source map, fully configured and then switched to {mode:?}, differs from the same configuration on the converted map\n switched : {got:?}\n reference: {reference:?}\n--- .osu ---\n{}",
                                        u.cfg,
                                        spec.describe(),
                                        spec.text()
                                    )
                                });
                                return;
                            }
                        }
                    }
                    // generation 1: attributes from the one-shot calculations; generation 2: attributes from a generation-1 result
                    let mut pattrs = reference.clone();
                    for generation in 1..=2 {
                        let mut next_pattrs = None;
                        for (ename, p) in entry_points(&conv, &dattrs, &pattrs) {
                            let got = sc.apply(p.difficulty(d.clone())).calculate();
                            l.checked(1);
                            if !same(&got, &reference) {
                                l.violation(&format!("entry_gen{generation}"), || {
                                    format!(
                                        "cfg={:?}\nspec={}\ndifficulty={dname}\nscore={sc:?}\nentry point {ename} (generation {generation}) differs from Performance::new(&map)\n entry    : {got:?}\n reference: {reference:?}\n--- .osu ---\n{}",
                                        u.cfg,
                                        spec.describe(),
                                        spec.text()
                                    )
                                });
                                return;
                            }
                            if ename == "Performance::new(PerformanceAttributes)" {
                                next_pattrs = Some(got);
                            }
                        }
                        if let Some(np) = next_pattrs {
                            pattrs = np;
                        }
                    }
                }
            }
        });
    }
    ctx.finish();
}
