//! C18 — builder settings mean the same thing wherever they are set.
//!
//! E2-style exploration of setter *sequences*: every ordered sequence of <= 3 distinct setter kinds
//! with values from a menu, on a map source and an attributes source per mode.

use rosu_pp::{any::DifficultyAttributes, Beatmap, Difficulty, GameMods, Performance};
use vh::{
    api,
    cmp::same,
    gen::{self, Kind, MapSpec, Obj, PosK},
    json::J,
    settings::{self, ModSpec},
    Ctx, Local,
};

#[derive(Clone, Debug, PartialEq)]
enum S {
    Mods(ModSpec),
    Passed(u32),
    Rate(f64),
    Ar(f32, bool),
    Cs(f32, bool),
    Hp(f32, bool),
    Od(f32, bool),
    HrOff(bool),
    Lazer(bool),
}

impl S {
    fn kind(&self) -> u8 {
        match self {
            S::Mods(_) => 0,
            S::Passed(_) => 1,
            S::Rate(_) => 2,
            S::Ar(..) => 3,
            S::Cs(..) => 4,
            S::Hp(..) => 5,
            S::Od(..) => 6,
            S::HrOff(_) => 7,
            S::Lazer(_) => 8,
        }
    }

    fn on_difficulty(&self, d: Difficulty, mode: u8) -> Difficulty {
        match self {
            S::Mods(m) => d.mods(m.build(gen::game_mode(mode))),
            S::Passed(n) => d.passed_objects(*n),
            S::Rate(r) => d.clock_rate(*r),
            S::Ar(v, w) => d.ar(*v, *w),
            S::Cs(v, w) => d.cs(*v, *w),
            S::Hp(v, w) => d.hp(*v, *w),
            S::Od(v, w) => d.od(*v, *w),
            S::HrOff(b) => d.hardrock_offsets(*b),
            S::Lazer(b) => d.lazer(*b),
        }
    }

    fn on_performance<'a>(&self, p: Performance<'a>, mode: u8) -> Performance<'a> {
        match self {
            S::Mods(m) => p.mods(m.build(gen::game_mode(mode))),
            S::Passed(n) => p.passed_objects(*n),
            S::Rate(r) => p.clock_rate(*r),
            S::Ar(v, w) => p.ar(*v, *w),
            S::Cs(v, w) => p.cs(*v, *w),
            S::Hp(v, w) => p.hp(*v, *w),
            S::Od(v, w) => p.od(*v, *w),
            S::HrOff(b) => p.hardrock_offsets(*b),
            S::Lazer(b) => p.lazer(*b),
        }
    }

    /// Whether `Performance`'s own setter records this setting for the mode (otherwise it is documented as irrelevant
    /// there and is a no-op on the `Performance`).
    fn recorded_by_performance(&self, mode: u8) -> bool {
        match self {
            S::Ar(..) | S::Cs(..) => mode == 0 || mode == 2,
            S::HrOff(_) => mode == 2,
            S::Lazer(_) => mode == 0 || mode == 3,
            _ => true,
        }
    }

    /// Documented as irrelevant for the mode.
    fn irrelevant(&self, mode: u8) -> bool {
        !self.recorded_by_performance(mode)
    }
}

const VALUES: [f64; 14] = [-100.0, -20.0, -1.0, 0.0, 0.005, 0.01, 5.0, 20.0, 100.0, 1000.0, f64::INFINITY, 1.234, 0.875, 33.333];

fn menu(kind: u8, rich: bool) -> Vec<S> {
    let fvals: &[f32] = if rich { &[-100.0, 0.0, 7.5, 1000.0] } else { &[-100.0, 7.5] };
    let mut v = Vec::new();
    match kind {
        0 => {
            v.extend([S::Mods(ModSpec::Bits(settings::HR | settings::DT)), S::Mods(ModSpec::Bits(settings::EZ))]);
            if rich {
                v.extend([S::Mods(ModSpec::Bits(0)), S::Mods(ModSpec::Classic(None))]);
            }
        }
        1 => v.extend([S::Passed(1), S::Passed(100)]),
        2 => {
            // incl. rates that coincide with what the mods of the menu imply (1.0 for none / EZ, 1.5 for HR+DT)
            v.extend([S::Rate(0.005), S::Rate(1.3), S::Rate(1.0), S::Rate(1.5)]);
            if rich {
                v.extend([S::Rate(1000.0), S::Rate(-1.0), S::Rate(0.75)]);
            }
        }
        3 => {
            for &f in fvals {
                v.extend([S::Ar(f, false), S::Ar(f, true)]);
            }
        }
        4 => {
            for &f in fvals {
                v.extend([S::Cs(f, false), S::Cs(f, true)]);
            }
        }
        5 => {
            for &f in fvals {
                v.extend([S::Hp(f, false), S::Hp(f, true)]);
            }
        }
        6 => {
            for &f in fvals {
                v.extend([S::Od(f, false), S::Od(f, true)]);
            }
        }
        7 => v.extend([S::HrOff(true), S::HrOff(false)]),
        _ => v.extend([S::Lazer(false), S::Lazer(true)]),
    }
    v
}

fn maps() -> Vec<(u8, MapSpec)> {
    let o = |k, gap, pos, sound, col| Obj { kind: k, gap, pos, sound, col };
    let std = |m| MapSpec::new(m, vec![o(Kind::Circle, 0, PosK::Same, 0, 0), o(Kind::Slider2, 150, PosK::Far, 8, 0), o(Kind::Circle, 300, PosK::Far, 0, 0), o(Kind::SliderLong, 150, PosK::Far, 0, 0), o(Kind::Circle, 700, PosK::Far, 2, 0)]);
    vec![
        (0, std(0)),
        (1, std(1)),
        (2, std(2)),
        (3, MapSpec::new(3, vec![o(Kind::Circle, 0, PosK::Same, 0, 0), o(Kind::Hold(300), 150, PosK::Same, 0, 2), o(Kind::Circle, 100, PosK::Same, 0, 1), o(Kind::Hold(100), 100, PosK::Same, 0, 0)])),
    ]
}

fn apply_all_d(seq: &[S], mode: u8) -> Difficulty {
    seq.iter().fold(Difficulty::new(), |d, s| s.on_difficulty(d, mode))
}

fn check_seq(l: &mut Local<'_>, mode: u8, map: &Beatmap, attrs: &DifficultyAttributes, seq: &[S], spec: &MapSpec) -> bool {
    let ctxs = |extra: String| format!("mode={mode} sequence={seq:?}\n{extra}\nspec={}\n--- .osu ---\n{}", spec.describe(), spec.text());
    let d = apply_all_d(seq, mode);
    l.states(1);

    // canonical (sorted by kind) order gives an equal builder: independent setters commute
    let mut sorted = seq.to_vec();
    sorted.sort_by_key(S::kind);
    let d_sorted = apply_all_d(&sorted, mode);
    l.checked(1);
    if d != d_sorted {
        l.violation("order_difficulty", || ctxs(format!("Difficulty depends on the order of independent setters\n given : {d:?}\n sorted: {d_sorted:?}")));
        return false;
    }

    // inspect round trip and documented clamps
    let insp = d.clone().inspect();
    l.checked(1);
    if insp.clock_rate.is_some_and(|r| !(0.01..=100.0).contains(&r)) {
        l.violation("clamp_rate", || ctxs(format!("inspected clock rate {:?} outside [0.01, 100]", insp.clock_rate)));
        return false;
    }
    for (n, v) in [("ar", insp.ar), ("cs", insp.cs), ("hp", insp.hp), ("od", insp.od)] {
        if v.is_some_and(|m| !(-20.0..=20.0).contains(&m.value)) {
            l.violation("clamp_attr", || ctxs(format!("inspected {n} {v:?} outside [-20, 20]")));
            return false;
        }
    }
    let back = insp.into_difficulty();
    l.checked(1);
    if back != d {
        l.violation("inspect_roundtrip", || ctxs(format!("inspect().into_difficulty() differs\n before: {d:?}\n after : {back:?}")));
        return false;
    }
    let via_from: Difficulty = Difficulty::from(rosu_pp::any::InspectDifficulty::from(d.clone()));
    if via_from != d {
        l.violation("inspect_from", || ctxs("From<InspectDifficulty> round trip differs".into()));
        return false;
    }

    // the same Difficulty means the same thing to the one-shot and to the gradual entry points (without passed_objects: what
    // a limited gradual calculator covers is not specified)
    if !seq.iter().any(|s| matches!(s, S::Passed(_))) {
        let one = d.calculate(map);
        let gd = rosu_pp::GradualDifficulty::new(d.clone(), map).last();
        let mut gp = rosu_pp::GradualPerformance::new(d.clone(), map);
        let n = gp.len();
        let last_p = (n > 0).then(|| gp.nth(rosu_pp::any::ScoreState::new(), n - 1)).flatten();
        l.checked(2);
        if gd.as_ref().is_some_and(|g| !same(g, &one)) || last_p.as_ref().is_some_and(|p| !same(&p.difficulty_attributes(), &one)) {
            l.violation("gradual_vs_one_shot_settings", || ctxs(format!("the Difficulty gives {one:?} one-shot,\n {gd:?} as the last gradual difficulty value and\n {:?} inside the last gradual performance value", last_p.map(|p| p.difficulty_attributes()))));
            return false;
        }
    }

    // Performance setters == handing over the Difficulty: on a map source and an attributes source
    for src in 0..2 {
        let mk = || if src == 0 { Performance::new(map) } else { Performance::new(attrs.clone()) };
        let own = seq.iter().fold(mk(), |p, s| s.on_performance(p, mode));
        let via = mk().difficulty(d.clone());
        let all_recorded = seq.iter().all(|s| s.recorded_by_performance(mode));
        l.checked(1);
        if all_recorded && own != via {
            l.violation("builders_differ", || ctxs(format!("source #{src}: Performance configured through its own setters differs from .difficulty(same setters)\n own: {own:?}\n via: {via:?}")));
            return false;
        }
        // an osu! calculator that holds attributes cannot be converted: the mode switch is documented as a no-op that hands
        // the calculator back — with every setting it had
        if src == 1 && mode == 0 {
            for target in [rosu_pp::model::mode::GameMode::Taiko, rosu_pp::model::mode::GameMode::Catch, rosu_pp::model::mode::GameMode::Mania] {
                let ignored = own.clone().mode_or_ignore(target);
                let tried = own.clone().try_mode(target);
                l.checked(2);
                let back = match &tried {
                    Err(p) => Some(p),
                    Ok(_) => None,
                };
                if ignored != own || back != Some(&own) {
                    l.violation("settings_lost_in_refused_switch", || ctxs(format!("an attribute-backed osu! calculator after mode_or_ignore / try_mode({target:?})\n before        : {own:?}\n mode_or_ignore: {ignored:?}\n try_mode      : {tried:?}")));
                    return false;
                }
            }
        }
        let own_sorted = sorted.iter().fold(mk(), |p, s| s.on_performance(p, mode));
        if own != own_sorted {
            l.violation("order_performance", || ctxs(format!("source #{src}: Performance depends on the order of independent setters")));
            return false;
        }
        let (ra, rb) = (own.accuracy(97.5).calculate(), via.accuracy(97.5).calculate());
        l.checked(2);
        if !same(&ra, &rb) {
            l.violation("results_differ", || ctxs(format!("source #{src}: result through own setters differs from .difficulty(...)\n own: {ra:?}\n via: {rb:?}")));
            return false;
        }
        if ra.pp() > 0.0 {
            l.nontrivial();
        }
    }

    // documented-irrelevant setters leave the mode's results untouched
    for (i, s) in seq.iter().enumerate() {
        if !s.irrelevant(mode) {
            continue;
        }
        let mut without = seq.to_vec();
        without.remove(i);
        let d2 = apply_all_d(&without, mode);
        let (a, b) = (api::difficulty(&d, map, mode).expect("native"), api::difficulty(&d2, map, mode).expect("native"));
        l.checked(1);
        if !same(&a, &b) {
            l.violation("irrelevant_difficulty", || ctxs(format!("{s:?} is documented as irrelevant for this mode but changes the difficulty\n with   : {a:?}\n without: {b:?}")));
            return false;
        }
        let (pa, pb) = (Performance::new(map).difficulty(d.clone()).accuracy(96.0).calculate(), Performance::new(map).difficulty(d2).accuracy(96.0).calculate());
        l.checked(1);
        if !same(&pa, &pb) {
            l.violation("irrelevant_performance", || ctxs(format!("{s:?} is documented as irrelevant for this mode but changes the performance\n with   : {pa:?}\n without: {pb:?}")));
            return false;
        }
        let st = (api::strains(&d, map, mode).expect("native"), api::strains(&apply_all_d(&without, mode), map, mode).expect("native"));
        if !same(&st.0, &st.1) {
            l.violation("irrelevant_strains", || ctxs(format!("{s:?} is documented as irrelevant for this mode but changes the strains")));
            return false;
        }
    }
    true
}

fn main() {
    let ctx = Ctx::from_env("C18");
    ctx.rule("universe 'sequences': per mode, every ordered sequence of <= 3 distinct setter kinds out of {mods, passed_objects, clock_rate, ar, cs, hp, od, hardrock_offsets, lazer} with every value combination from the per-setter menus (out-of-range values included), on a map source and an attributes source; oracle = Performance through own setters == Performance.difficulty(Difficulty with the same setters) as builders (when the mode's Performance records all of them) and as results always; independent setters commute; inspect round trip; inspected clock rate in [0.01,100], overrides in [-20,20]; setters documented irrelevant for the mode leave difficulty, strains and performance untouched. universe 'clamps': every setter x all 14 values {-100,-20,-1,0,0.005,0.01,5,20,100,1000,+inf,1.234,0.875,33.333}; the exact value survives (inspected == clamp(v)), and the same value written into the public field of the inspectable form and converted back gives the same Difficulty as the setter; non-trivial = pp > 0");

    let rich = !ctx.quick();
    let maps: Vec<(u8, MapSpec, Beatmap, DifficultyAttributes)> = maps()
        .into_iter()
        .map(|(m, s)| {
            let map = s.decode();
            let attrs = Difficulty::new().calculate(&map);
            (m, s, map, attrs)
        })
        .collect();

    // all ordered sequences of <= 3 (thorough: 4) distinct kinds
    let max_len = if rich { 4 } else { 3 };
    let mut kind_seqs: Vec<Vec<u8>> = vec![vec![]];
    let mut frontier: Vec<Vec<u8>> = vec![vec![]];
    for _ in 0..max_len {
        let mut next = Vec::new();
        for h in &frontier {
            for k in 0..9u8 {
                if !h.contains(&k) {
                    let mut n = h.clone();
                    n.push(k);
                    next.push(n);
                }
            }
        }
        kind_seqs.extend(next.iter().cloned());
        frontier = next;
    }
    let menus: Vec<Vec<S>> = (0..9u8).map(|k| menu(k, rich)).collect();
    for (mode, spec, map, attrs) in &maps {
        let name = format!("sequences/mode{mode}");
        ctx.universe(&name, kind_seqs.len() as u64, |idx, l| {
            let ks = &kind_seqs[idx as usize];
            if l.want_sample() {
                let mut o = J::obj();
                o.set("universe", J::s(name.clone()));
                o.set("index", J::i(idx));
                o.set("setter_kinds", J::s(format!("{ks:?} (0 mods,1 passed_objects,2 clock_rate,3 ar,4 cs,5 hp,6 od,7 hardrock_offsets,8 lazer)")));
                o.set("value_combinations", J::i(ks.iter().map(|k| menus[*k as usize].len() as u64).product::<u64>()));
                l.sample(o);
            }
            // every value combination
            let radices: Vec<usize> = ks.iter().map(|k| menus[*k as usize].len()).collect();
            let total: usize = radices.iter().product();
            for mut c in 0..total {
                let mut seq = Vec::with_capacity(ks.len());
                for (k, r) in ks.iter().zip(&radices) {
                    seq.push(menus[*k as usize][c % r].clone());
                    c /= r;
                }
                if !check_seq(l, *mode, map, attrs, &seq, spec) {
                    return;
                }
            }
        });
    }

    // clamps: all 11 values for every numeric setter
    ctx.universe("clamps", (VALUES.len() * 5 * 2) as u64, |idx, l| {
        let v = VALUES[(idx as usize) % VALUES.len()];
        let k = (idx as usize / VALUES.len()) % 5;
        let w = idx as usize / (VALUES.len() * 5) == 1;
        let s = match k {
            0 => S::Rate(v),
            1 => S::Ar(v as f32, w),
            2 => S::Cs(v as f32, w),
            3 => S::Hp(v as f32, w),
            _ => S::Od(v as f32, w),
        };
        let (mode, spec, map, attrs) = &maps[idx as usize % maps.len()];
        if !check_seq(l, *mode, map, attrs, &[s.clone()], spec) {
            return;
        }
        // the value itself survives, clamped to the documented bounds and not otherwise altered
        let d = s.on_difficulty(Difficulty::new(), *mode);
        let insp = d.clone().inspect();
        let (got, want) = match k {
            0 => (insp.clock_rate, v.clamp(0.01, 100.0)),
            1 => (insp.ar.as_ref().map(|m| f64::from(m.value)), f64::from((v as f32).clamp(-20.0, 20.0))),
            2 => (insp.cs.as_ref().map(|m| f64::from(m.value)), f64::from((v as f32).clamp(-20.0, 20.0))),
            3 => (insp.hp.as_ref().map(|m| f64::from(m.value)), f64::from((v as f32).clamp(-20.0, 20.0))),
            _ => (insp.od.as_ref().map(|m| f64::from(m.value)), f64::from((v as f32).clamp(-20.0, 20.0))),
        };
        l.checked(2);
        if got != Some(want) {
            l.violation("value_altered", || format!("setter {s:?}: the Difficulty holds {got:?}, expected the clamped value {want}"));
            return;
        }
        // the same value written into the public field of the inspectable form
        let mut raw = Difficulty::new().inspect();
        let md = |v: f64| rosu_pp::any::ModsDependent { value: v as f32, with_mods: w };
        match k {
            0 => raw.clock_rate = Some(v),
            1 => raw.ar = Some(md(v)),
            2 => raw.cs = Some(md(v)),
            3 => raw.hp = Some(md(v)),
            _ => raw.od = Some(md(v)),
        }
        let via_fields = raw.clone().into_difficulty();
        let via_from = Difficulty::from(raw);
        if format!("{via_fields:?}") != format!("{d:?}") || format!("{via_from:?}") != format!("{d:?}") {
            l.violation("inspect_fields", || format!("setter {s:?}\n through the setter              : {d:?}\n through InspectDifficulty fields: {via_fields:?}\n through From<InspectDifficulty> : {via_from:?}"));
        }
    });
    let _ = GameMods::default();
    ctx.finish();
}
