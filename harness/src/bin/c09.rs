//! C09 — stars, pp and all reported attributes are finite and non-negative.

use rosu_pp::{
    any::{DifficultyAttributes, ScoreState},
    catch::CatchScoreState,
    mania::ManiaScoreState,
    osu::{OsuScoreOrigin, OsuScoreState},
    taiko::TaikoScoreState,
    Difficulty, Performance,
};
use vh::{
    api,
    cmp::find_non_finite,
    gen::{self, Alphabet, Kind, MapSpec, PosK, MODE_CFGS},
    json::J,
    settings::{self, ModSpec, Setting},
    Ctx, Local,
};

/// Scan a Debug dump for `name: number` pairs that are negative although the field must be >= 0.
fn find_negative(s: &str) -> Option<String> {
    let b = s.as_bytes();
    let mut i = 0;
    while let Some(p) = s[i..].find(": -") {
        let at = i + p;
        // field name
        let start = s[..at].rfind(|c: char| !(c.is_alphanumeric() || c == '_')).map_or(0, |x| x + 1);
        let name = &s[start..at];
        let mut j = at + 3;
        while j < b.len() && (b[j].is_ascii_digit() || b[j] == b'.' || b[j] == b'e' || b[j] == b'-') {
            j += 1;
        }
        let val: f64 = s[at + 2..j].parse().unwrap_or(0.0);
        // `ar` and `hp` are legitimately negative (AR 0 + HT etc.); -0.0 is zero
        if val < 0.0 && name != "ar" && name != "hp" {
            return Some(format!("{name}: {val}"));
        }
        i = j;
    }
    None
}

fn compositions(n: u32, k: usize, cur: &mut Vec<u32>, out: &mut Vec<Vec<u32>>) {
    if k == 1 {
        cur.push(n);
        out.push(cur.clone());
        cur.pop();
        return;
    }
    for a in 0..=n {
        cur.push(a);
        compositions(n - a, k - 1, cur, out);
        cur.pop();
    }
}

/// Every score state consistent with the counts of the prefix.
fn states_for(a: &DifficultyAttributes, lazer: bool, classic_lazer: bool) -> Vec<ScoreState> {
    let mut out = Vec::new();
    let mut comps = Vec::new();
    match a {
        DifficultyAttributes::Osu(o) => {
            compositions(o.n_objects(), 4, &mut Vec::new(), &mut comps);
            for c in &comps {
                for combo in [0, o.max_combo.saturating_sub(c[3])] {
                    // lazer scores with Classic count slider heads as large ticks and slider ends as small ticks
                    let pairs = if classic_lazer { vec![(0, 0), (o.n_large_ticks, o.n_sliders), (o.n_large_ticks + o.n_sliders, o.n_sliders), (o.n_large_ticks + o.n_sliders, 0)] } else { vec![(0, 0), (o.n_large_ticks, o.n_sliders)] };
                    for (lt, se) in pairs {
                        out.push(ScoreState { max_combo: combo, osu_large_tick_hits: lt, osu_small_tick_hits: se, slider_end_hits: se, n300: c[0], n100: c[1], n50: c[2], misses: c[3], ..ScoreState::new() });
                    }
                }
            }
        }
        DifficultyAttributes::Taiko(t) => {
            compositions(t.max_combo, 3, &mut Vec::new(), &mut comps);
            for c in &comps {
                for combo in [0, t.max_combo.saturating_sub(c[2])] {
                    out.push(ScoreState { max_combo: combo, n300: c[0], n100: c[1], misses: c[2], ..ScoreState::new() });
                }
            }
        }
        DifficultyAttributes::Catch(ca) => {
            // fruits / droplets caught or missed, tiny droplets caught or missed
            for f in 0..=ca.n_fruits {
                for d in 0..=ca.n_droplets {
                    let misses = ca.n_fruits - f + ca.n_droplets - d;
                    for t in [0, ca.n_tiny_droplets / 2, ca.n_tiny_droplets] {
                        for combo in [0, (ca.n_fruits + ca.n_droplets).saturating_sub(misses)] {
                            out.push(ScoreState { max_combo: combo, n300: f, n100: d, n50: t, n_katu: ca.n_tiny_droplets - t, misses, ..ScoreState::new() });
                        }
                    }
                }
            }
        }
        DifficultyAttributes::Mania(m) => {
            let n = m.n_objects + if lazer { m.n_hold_notes } else { 0 };
            compositions(n.min(6), 6, &mut Vec::new(), &mut comps);
            for c in &comps {
                // scale the last bucket up when the prefix has more than 6 judgements
                let extra = n - n.min(6);
                out.push(ScoreState { n_geki: c[0] + extra, n300: c[1], n_katu: c[2], n100: c[3], n50: c[4], misses: c[5].min(m.n_objects), ..ScoreState::new() });
            }
        }
    }
    out
}

fn accuracy_of(a: &DifficultyAttributes, s: &ScoreState, lazer: bool, classic: bool) -> f64 {
    match a {
        DifficultyAttributes::Osu(o) => {
            let origin = if !lazer {
                OsuScoreOrigin::Stable
            } else if classic {
                OsuScoreOrigin::WithoutSliderAcc { max_large_ticks: o.n_sliders + o.n_large_ticks, max_small_ticks: o.n_sliders }
            } else {
                OsuScoreOrigin::WithSliderAcc { max_large_ticks: o.n_large_ticks, max_slider_ends: o.n_sliders }
            };
            OsuScoreState::from(s.clone()).accuracy(origin)
        }
        DifficultyAttributes::Taiko(_) => TaikoScoreState::from(s.clone()).accuracy(),
        DifficultyAttributes::Catch(_) => CatchScoreState::from(s.clone()).accuracy(),
        DifficultyAttributes::Mania(_) => ManiaScoreState::from(s.clone()).accuracy(!lazer || classic),
    }
}

fn settings_menu(dst: u8, rich: bool) -> Vec<Setting> {
    let mut mods = vec![
        ModSpec::Bits(0),
        ModSpec::Bits(settings::HR),
        ModSpec::Bits(settings::DT),
        ModSpec::Bits(settings::EZ | settings::HT),
        ModSpec::Bits(settings::HD | settings::FL),
        ModSpec::Bits(settings::RX | settings::FL),
        ModSpec::Bits(settings::AP | settings::FL | settings::HD),
        ModSpec::Bits(settings::TD | settings::SO),
        ModSpec::Classic(None),
    ];
    if dst == 3 {
        mods.extend([ModSpec::Bits(settings::KEY7), ModSpec::HoldOff, ModSpec::Invert, ModSpec::HoIn(None)]);
    }
    let mut out = Vec::new();
    for m in &mods {
        out.push(Setting::mods(m.clone()));
        out.push(Setting { lazer: Some(false), ..Setting::mods(m.clone()) });
    }
    for r in [0.5, 0.75, 1.5, 2.0] {
        out.push(Setting { rate: Some(r), ..Setting::nm() });
        if rich {
            out.push(Setting { rate: Some(r), ..Setting::bits(settings::HR | settings::FL) });
        }
    }
    for v in [0.0f32, 5.0, 10.0, 11.0] {
        for w in [false, true] {
            out.push(Setting { ar: Some((v, w)), cs: Some((v, w)), od: Some((v, w)), hp: Some((v, w)), ..Setting::nm() });
            if rich {
                out.push(Setting { ar: Some((v, w)), cs: Some((v, w)), od: Some((v, w)), hp: Some((v, w)), rate: Some(2.0), ..Setting::bits(settings::HR) });
                out.push(Setting { ar: Some((v, w)), cs: Some((v, w)), od: Some((v, w)), hp: Some((v, w)), rate: Some(0.5), ..Setting::bits(settings::EZ | settings::FL) });
            }
        }
    }
    out
}

fn check_case(l: &mut Local<'_>, cfg: gen::ModeCfg, spec: &MapSpec, menu: &[Setting]) {
    let map = spec.decode();
    let dst = cfg.dst;
    let mode = gen::game_mode(dst);
    let ctxs = |extra: String| format!("cfg={cfg:?}\n{extra}\nspec={}\n--- .osu ---\n{}", spec.describe(), spec.text());
    for s in menu {
        let d0: Difficulty = s.difficulty(mode);
        let lazer = s.lazer.unwrap_or(true);
        let classic = matches!(s.mods, ModSpec::Classic(_));
        let full = api::difficulty(&d0, &map, dst).expect("convertible");
        let total = match &full {
            DifficultyAttributes::Osu(a) => a.n_objects(),
            DifficultyAttributes::Taiko(a) => a.max_combo,
            DifficultyAttributes::Catch(a) => a.n_fruits + a.n_droplets,
            DifficultyAttributes::Mania(a) => a.n_objects,
        };
        for n in 0..=total {
            let d = if n == total { d0.clone() } else { d0.clone().passed_objects(n) };
            let a = if n == total { full.clone() } else { api::difficulty(&d, &map, dst).expect("convertible") };
            let st = api::strains(&d, &map, dst).expect("convertible");
            l.checked(2);
            let dump = format!("{a:?} {st:?}");
            if let Some(bad) = find_non_finite(&dump) {
                l.violation("difficulty_non_finite", || ctxs(format!("setting={s:?} passed_objects={n}/{total}\nnon-finite value `{bad}` in {dump}")));
                return;
            }
            if let Some(bad) = find_negative(&dump) {
                l.violation("difficulty_negative", || ctxs(format!("setting={s:?} passed_objects={n}/{total}\nnegative value `{bad}` in {dump}")));
                return;
            }
            if a.stars() > 0.0 {
                l.nontrivial();
            }
            for state in states_for(&a, lazer && !classic, lazer && classic) {
                let acc = accuracy_of(&a, &state, lazer, classic);
                l.checked(1);
                if !(0.0..=1.0).contains(&acc) {
                    l.violation("accuracy_range", || ctxs(format!("setting={s:?} passed_objects={n}/{total}\naccuracy {acc} of state {state:?}")));
                    return;
                }
                let mut p = Performance::new(a.clone()).difficulty(d.clone()).state(state.clone());
                let g = p.generate_state();
                let r = p.calculate();
                l.states(1);
                l.checked(1);
                let dump = format!("{r:?}");
                if let Some(bad) = find_non_finite(&dump) {
                    l.violation("performance_non_finite", || ctxs(format!("setting={s:?} passed_objects={n}/{total}\nstate={state:?}\nnon-finite value `{bad}` in {dump}")));
                    return;
                }
                if let Some(bad) = find_negative(&dump) {
                    l.violation("performance_negative", || ctxs(format!("setting={s:?} passed_objects={n}/{total}\nstate={state:?}\nnegative value `{bad}` in {dump}")));
                    return;
                }
                if g.total_hits(mode) == 0 && r.pp() != 0.0 {
                    l.violation("zero_hits_pp", || ctxs(format!("setting={s:?} passed_objects={n}/{total}\nstate={state:?} generated={g:?}\nzero hits but pp={}", r.pp())));
                    return;
                }
            }
        }
    }
}

fn check_case_limited(l: &mut Local<'_>, cfg: gen::ModeCfg, spec: &MapSpec, menu: &[Setting]) {
    let map = spec.decode();
    let dst = cfg.dst;
    let mode = gen::game_mode(dst);
    let ctxs = |extra: String| format!("cfg={cfg:?}\n{extra}\nspec={}\n--- .osu ---\n{}", spec.describe(), spec.text());
    for s in menu {
        let d0: Difficulty = s.difficulty(mode);
        let lazer = s.lazer.unwrap_or(true);
        let classic = matches!(s.mods, ModSpec::Classic(_));
        let full = api::difficulty(&d0, &map, dst).expect("convertible");
        let total = match &full {
            DifficultyAttributes::Osu(a) => a.n_objects(),
            DifficultyAttributes::Taiko(a) => a.max_combo,
            DifficultyAttributes::Catch(a) => a.n_fruits + a.n_droplets,
            DifficultyAttributes::Mania(a) => a.n_objects,
        };
        for n in [0, total / 3, total / 2, total.saturating_sub(1), total] {
            let d = if n == total { d0.clone() } else { d0.clone().passed_objects(n) };
            let a = if n == total { full.clone() } else { api::difficulty(&d, &map, dst).expect("convertible") };
            let st = api::strains(&d, &map, dst).expect("convertible");
            l.checked(2);
            let dump = format!("{a:?} {st:?}");
            if let Some(bad) = find_non_finite(&dump) {
                l.violation("difficulty_non_finite", || ctxs(format!("setting={s:?} passed_objects={n}/{total}\nnon-finite value `{bad}` in {dump}")));
                return;
            }
            if let Some(bad) = find_negative(&dump) {
                l.violation("difficulty_negative", || ctxs(format!("setting={s:?} passed_objects={n}/{total}\nnegative value `{bad}` in {dump}")));
                return;
            }
            if a.stars() > 0.0 {
                l.nontrivial();
            }
            for state in states_for(&a, lazer && !classic, lazer && classic).into_iter().step_by(7).take(400) {
                let acc = accuracy_of(&a, &state, lazer, classic);
                l.checked(1);
                if !(0.0..=1.0).contains(&acc) {
                    l.violation("accuracy_range", || ctxs(format!("setting={s:?} passed_objects={n}/{total}\naccuracy {acc} of state {state:?}")));
                    return;
                }
                let mut p = Performance::new(a.clone()).difficulty(d.clone()).state(state.clone());
                let g = p.generate_state();
                let r = p.calculate();
                l.states(1);
                l.checked(1);
                let dump = format!("{r:?}");
                if let Some(bad) = find_non_finite(&dump) {
                    l.violation("performance_non_finite", || ctxs(format!("setting={s:?} passed_objects={n}/{total}\nstate={state:?}\nnon-finite value `{bad}` in {dump}")));
                    return;
                }
                if let Some(bad) = find_negative(&dump) {
                    l.violation("performance_negative", || ctxs(format!("setting={s:?} passed_objects={n}/{total}\nstate={state:?}\nnegative value `{bad}` in {dump}")));
                    return;
                }
                if g.total_hits(mode) == 0 && r.pp() != 0.0 {
                    l.violation("zero_hits_pp", || ctxs(format!("setting={s:?} passed_objects={n}/{total}\nstate={state:?} generated={g:?}\nzero hits but pp={}", r.pp())));
                    return;
                }
            }
        }
    }
}

fn main() {
    let ctx = Ctx::from_env("C09");
    ctx.rule("case = (mode configuration, grammar map incl. degenerate shapes: empty, single object, all spinners, fully stacked, 1 ms gaps, 7 s gaps, three or four simultaneous objects stacked and apart); per case: settings menu (mods incl. RX/AP/TD/SO/FL/Classic x lazer flag, AP / RX / TD also on the periodic longer maps, clock rates {0.5,0.75,1.5,2}, AR/CS/OD/HP all in {0,5,10,11} x with_mods) x every passed_objects prefix x every score state consistent with the prefix counts (all compositions into the mode's hit results; combo in {0,max}; slider end / tick hits in {0,max}, under lazer Classic large ticks also at max + slider heads); oracle on the Debug dumps: no NaN/inf anywhere in difficulty attributes, strains, performance attributes; every float field except ar/hp >= 0; accuracy() in [0,1]; generated state with zero hits => pp == 0; non-trivial = stars > 0");

    let rich = !ctx.quick();
    // periodic longer maps (12 objects), a reduced settings menu, every prefix, every consistent score state of up to 6 judgements
    for mu in vh::uni::motif_universes(&MODE_CFGS, 2, ctx.pick(6, 8), false).into_iter().chain(vh::uni::rhythm_universes(&MODE_CFGS, 3, ctx.pick(3, 4))) {
        let mut menu: Vec<Setting> = vec![Setting::nm(), Setting::bits(settings::RX | settings::FL), Setting { lazer: Some(false), ..Setting::bits(settings::HR | settings::DT) }, Setting { rate: Some(0.5), ..Setting::bits(settings::EZ | settings::FL) }];
        // (skills need a few objects of history before they report anything: the mods that set a rating to zero by decree —
        // Autopilot, Relax, alone and with Touch Device — meet non-zero companions of that rating only on these longer maps)
        if mu.cfg.dst == 0 {
            menu.extend([Setting::bits(settings::AP), Setting::bits(settings::AP | settings::TD | settings::FL), Setting::bits(settings::RX | settings::TD)]);
        }
        ctx.universe(&mu.name, mu.total, |idx, l| {
            let spec = mu.spec(idx);
            check_case_limited(l, mu.cfg, &spec, &menu);
        });
    }
    // degenerate sliders (10 px: travel time of a few ms; a path without length with repeats; a perfect-circle curve) among
    // circles at gaps of 20 ms / 10 ms after the end / 150 ms: N <= 4 over 12 symbols, default and fast-slider presets,
    // reduced menu (time differences that shrink to the minimum or to zero sit in denominators)
    for cfg in MODE_CFGS.iter().filter(|c| c.src == 0) {
        let alpha = Alphabet::product(&[Kind::Circle, Kind::SliderTiny, Kind::SliderZeroRep, Kind::SliderPerfect], &[20, 150, gen::END_REL + 10], &[PosK::Far], &[0], &[0]);
        let n = ctx.pick(4u32, 5);
        let menu: Vec<Setting> = vec![Setting::nm(), Setting::bits(settings::DT | settings::FL), Setting { rate: Some(0.5), ..Setting::bits(settings::RX) }];
        for preset in [gen::DiffPreset::D0, gen::DiffPreset::D2] {
            let name = format!("degenerate-sliders/{preset:?}/{}to{}/N<={n}/|A|={}", cfg.src, cfg.dst, alpha.len());
            let skip = alpha.count_upto(2);
            ctx.universe(&name, alpha.count_upto(n) - skip, |idx, l| {
                let spec = MapSpec { diff: preset, ..MapSpec::new(cfg.src, alpha.seq(idx + skip, n)) };
                check_case_limited(l, *cfg, &spec, &menu);
            });
        }
    }
    // simultaneous objects (gap 0) stacked and far apart among ordinary ones, three and four in a row: a look-back over earlier
    // objects divides by accumulated time differences, which are zero here
    for cfg in MODE_CFGS.iter().filter(|c| c.src != 3) {
        let alpha = Alphabet::product(&[Kind::Circle, Kind::Slider2], &[0, 150], &[PosK::Same, PosK::Far], &[0], &[0]);
        let n = ctx.pick(3u32, 4);
        let menu: Vec<Setting> = vec![Setting::nm(), Setting::bits(settings::DT | settings::FL), Setting { rate: Some(0.5), ..Setting::bits(settings::HD | settings::FL) }];
        let name = format!("simultaneous/{}to{}/N<={n}/|A|={}", cfg.src, cfg.dst, alpha.len());
        let skip = alpha.count_upto(2);
        ctx.universe(&name, alpha.count_upto(n) - skip, |idx, l| {
            let spec = MapSpec::new(cfg.src, alpha.seq(idx + skip, n));
            check_case_limited(l, *cfg, &spec, &menu);
        });
    }
    for cfg in MODE_CFGS.iter() {
        let kinds = if cfg.src == 3 { vec![Kind::Circle, Kind::Hold(0), Kind::Hold(300)] } else { vec![Kind::Circle, Kind::Slider2, Kind::Spinner(600)] };
        let menu = settings_menu(cfg.dst, rich);
        // universe A: N <= 2 over the wide alphabet
        let wide = Alphabet::product(&kinds, &[0, 1, 150, 7000], &[PosK::Same, PosK::Far], &[0], &[0]);
        let na = ctx.pick(2, 3);
        let name = format!("wide/{}to{}/N<={na}/|A|={}", cfg.src, cfg.dst, wide.len());
        ctx.universe(&name, wide.count_upto(na), |idx, l| {
            let spec = MapSpec::new(cfg.src, wide.seq(idx, na));
            if l.want_sample() {
                let mut o = J::obj();
                o.set("universe", J::s(name.clone()));
                o.set("index", J::i(idx));
                o.set("map_spec", J::s(spec.describe()));
                o.set("settings_in_menu", J::i(menu.len() as u64));
                l.sample(o);
            }
            check_case(l, *cfg, &spec, &menu);
        });
        // universe B: longer maps over a narrow alphabet
        let narrow = Alphabet::product(&kinds, &[1, 150], &[PosK::Far], &[0], &[0]);
        let nb = ctx.pick(3, 4);
        let name = format!("narrow/{}to{}/N<={nb}/|A|={}", cfg.src, cfg.dst, narrow.len());
        let skip = narrow.count_upto(na.min(nb - 1));
        ctx.universe(&name, narrow.count_upto(nb) - skip, |idx, l| {
            let spec = MapSpec { diff: gen::DiffPreset::D3, ..MapSpec::new(cfg.src, narrow.seq(idx + skip, nb)) };
            check_case(l, *cfg, &spec, &menu);
        });
    }
    ctx.finish();
}
