//! C12 — generated score states are consistent, stable and what calculate() uses.
//!
//! E1 enumeration over synthetic attribute shapes (no map) x every provided/absent pattern of the
//! mode's hit results x accuracy x priority x origin x passed_objects x combo.

use rosu_pp::{
    any::{DifficultyAttributes, HitResultPriority, ScoreState},
    catch::CatchDifficultyAttributes,
    mania::ManiaDifficultyAttributes,
    model::mode::GameMode,
    osu::OsuDifficultyAttributes,
    taiko::TaikoDifficultyAttributes,
    Difficulty, Performance,
};
use vh::{
    cmp::same,
    ctx::{product, unrank},
    json::J,
    settings::ModSpec,
    Ctx, Local,
};

#[derive(Copy, Clone, Debug)]
enum Shape {
    Osu { circles: u32, sliders: u32, spinners: u32, ticks: u32 },
    Taiko { combo: u32 },
    Catch { fruits: u32, droplets: u32, tiny: u32 },
    Mania { objects: u32, holds: u32 },
}

impl Shape {
    fn mode(&self) -> GameMode {
        match self {
            Shape::Osu { .. } => GameMode::Osu,
            Shape::Taiko { .. } => GameMode::Taiko,
            Shape::Catch { .. } => GameMode::Catch,
            Shape::Mania { .. } => GameMode::Mania,
        }
    }

    fn attrs(&self) -> DifficultyAttributes {
        match *self {
            Shape::Osu { circles, sliders, spinners, ticks } => DifficultyAttributes::Osu(OsuDifficultyAttributes {
                aim: 1.5,
                speed: 1.2,
                flashlight: 0.9,
                slider_factor: 0.98,
                speed_note_count: f64::from(circles + sliders) * 0.7,
                aim_difficult_strain_count: 3.0,
                speed_difficult_strain_count: 2.0,
                aim_difficult_slider_count: f64::from(sliders) * 0.5,
                ar: 9.0,
                great_hit_window: 30.0,
                ok_hit_window: 80.0,
                meh_hit_window: 130.0,
                hp: 5.0,
                n_circles: circles,
                n_sliders: sliders,
                n_large_ticks: ticks,
                n_spinners: spinners,
                stars: 3.3,
                max_combo: circles + spinners + 2 * sliders + ticks,
            }),
            Shape::Taiko { combo } => DifficultyAttributes::Taiko(TaikoDifficultyAttributes {
                stamina: 1.5,
                rhythm: 0.6,
                color: 0.9,
                reading: 0.2,
                great_hit_window: 25.0,
                ok_hit_window: 60.0,
                mono_stamina_factor: 0.3,
                stars: 3.1,
                max_combo: combo,
                is_convert: false,
            }),
            Shape::Catch { fruits, droplets, tiny } => DifficultyAttributes::Catch(CatchDifficultyAttributes {
                stars: 3.2,
                ar: 9.0,
                n_fruits: fruits,
                n_droplets: droplets,
                n_tiny_droplets: tiny,
                is_convert: false,
            }),
            Shape::Mania { objects, holds } => DifficultyAttributes::Mania(ManiaDifficultyAttributes {
                stars: 3.4,
                n_objects: objects,
                n_hold_notes: holds,
                max_combo: objects + 2 * holds,
                is_convert: false,
            }),
        }
    }
}

/// slot order: [n300, n100, n50, n_katu, n_geki, misses]
const SLOT_NAMES: [&str; 6] = ["n300", "n100", "n50", "n_katu", "n_geki", "misses"];

fn used_slots(mode: GameMode) -> &'static [usize] {
    match mode {
        GameMode::Osu => &[0, 1, 2, 5],
        GameMode::Taiko => &[0, 1, 5],
        GameMode::Catch => &[0, 1, 2, 3, 5],
        GameMode::Mania => &[0, 1, 2, 3, 4, 5],
    }
}

#[derive(Clone, Debug)]
struct Spec {
    shape: Shape,
    slots: [Option<u32>; 6],
    acc: Option<f64>,
    worst: bool,
    /// 0 lazer (default), 1 stable (lazer(false)), 2 lazer + Classic mod
    origin: u8,
    passed: Option<u32>,
    combo: Option<u32>,
    /// osu only: 0 unset, 1 all zero, 2 all max, 3 all max+2
    slider_spec: u8,
}

impl Spec {
    fn difficulty(&self) -> Difficulty {
        let mut d = Difficulty::new();
        match self.origin {
            1 => d = d.lazer(false),
            2 => d = d.mods(ModSpec::Classic(None).build(self.shape.mode())),
            // Classic next to a legacy mod, mode-less and handed over by reference
            3 => d = d.mods(ModSpec::IntermodeRef("CLHD").build(self.shape.mode())),
            _ => {}
        }
        if let Some(p) = self.passed {
            d = d.passed_objects(p);
        }
        d
    }

    fn base(&self) -> Performance<'static> {
        Performance::new(self.shape.attrs()).difficulty(self.difficulty())
    }

    fn builder(&self) -> Performance<'static> {
        let mut p = self.base();
        if self.worst {
            p = p.hitresult_priority(HitResultPriority::WorstCase);
        }
        if let Some(a) = self.acc {
            p = p.accuracy(a);
        }
        if let Some(c) = self.combo {
            p = p.combo(c);
        }
        if let Some(v) = self.slots[0] {
            p = p.n300(v);
        }
        if let Some(v) = self.slots[1] {
            p = p.n100(v);
        }
        if let Some(v) = self.slots[2] {
            p = p.n50(v);
        }
        if let Some(v) = self.slots[3] {
            p = p.n_katu(v);
        }
        if let Some(v) = self.slots[4] {
            p = p.n_geki(v);
        }
        if let Some(v) = self.slots[5] {
            p = p.misses(v);
        }
        if let Shape::Osu { sliders, ticks, .. } = self.shape {
            let v = match self.slider_spec {
                1 => Some((0, 0, 0)),
                2 => Some((sliders + ticks, sliders, sliders)),
                3 => Some((sliders + ticks + 2, sliders + 2, sliders + 2)),
                _ => None,
            };
            if let Some((lt, st, se)) = v {
                p = p.large_tick_hits(lt).small_tick_hits(st).slider_end_hits(se);
            }
        }
        p
    }
}

fn slots_of(s: &ScoreState) -> [u32; 6] {
    [s.n300, s.n100, s.n50, s.n_katu, s.n_geki, s.misses]
}

/// Returns (class, message) on violation.
fn check(spec: &Spec) -> Option<(String, String)> {
    let mode = spec.shape.mode();
    let mut p = spec.builder();
    let s1 = p.generate_state();
    let s2 = p.generate_state();
    if s1 != s2 {
        return Some(("unstable".into(), format!("generate_state twice: {s1:?} then {s2:?}")));
    }
    let g = slots_of(&s1);
    let classic = spec.origin != 0;

    // judgement count / groups
    // each group: (slot indices incl. misses slot if it belongs there, capacity, per-slot caps)
    let mut groups: Vec<(Vec<usize>, u32, Vec<u32>)> = Vec::new();
    let max_combo;
    let objects_total;
    match spec.shape {
        Shape::Osu { circles, sliders, spinners, ticks } => {
            let n = (circles + sliders + spinners).min(spec.passed.unwrap_or(u32::MAX));
            groups.push((vec![0, 1, 2, 5], n, vec![n; 4]));
            max_combo = circles + spinners + 2 * sliders + ticks;
            objects_total = n;
        }
        Shape::Taiko { combo } => {
            let n = combo.min(spec.passed.unwrap_or(u32::MAX));
            groups.push((vec![0, 1, 5], n, vec![n; 3]));
            max_combo = combo;
            objects_total = n;
        }
        Shape::Catch { fruits, droplets, tiny } => {
            groups.push((vec![0, 1, 5], fruits + droplets, vec![fruits, droplets, fruits + droplets]));
            groups.push((vec![2, 3], tiny, vec![tiny, tiny]));
            max_combo = fruits + droplets;
            objects_total = fruits + droplets;
        }
        Shape::Mania { objects, holds } => {
            let n_obj = objects.min(spec.passed.unwrap_or(u32::MAX));
            let n = n_obj + if classic { 0 } else { holds };
            groups.push((vec![4, 0, 3, 1, 2, 5], n, vec![n; 6]));
            max_combo = objects + 2 * holds;
            objects_total = n;
        }
    }

    if s1.misses > objects_total {
        return Some(("misses_gt_objects".into(), format!("misses {} > objects {}: {s1:?}", s1.misses, objects_total)));
    }

    for (gi, (slots, cap, caps)) in groups.iter().enumerate() {
        // clamped provided values
        let misses_c = if slots.contains(&5) { spec.slots[5].map_or(0, |m| m.min(*cap)) } else { 0 };
        let mut sum_c: u64 = 0;
        let mut fits_individually = true;
        for (k, &sl) in slots.iter().enumerate() {
            if let Some(v) = spec.slots[sl] {
                if sl == 5 {
                    sum_c += u64::from(misses_c);
                } else {
                    if v > caps[k] {
                        fits_individually = false;
                    }
                    sum_c += u64::from(v);
                }
            }
        }
        let total_g: u32 = slots.iter().map(|&sl| g[sl]).sum();
        if fits_individually && sum_c <= u64::from(*cap) {
            if total_g != *cap {
                let which = if spec.acc.is_some() { "acc" } else { "noacc" };
                let n_none = slots.iter().filter(|&&sl| sl != 5 && spec.slots[sl].is_none()).count();
                return Some((
                    format!("{mode:?}_sum_{which}_free{n_none}_g{gi}").to_lowercase(),
                    format!("provided results fit ({sum_c} <= {cap}) but generated results of group {gi} add up to {total_g}, not {cap}: {s1:?}"),
                ));
            }
            for &sl in slots {
                if sl == 5 {
                    continue;
                }
                if let Some(v) = spec.slots[sl] {
                    if g[sl] < v {
                        // known finding (see KNOWN_FINDINGS.txt): with an accuracy given, catch re-derives both tiny
                        // droplet counts from the accuracy when the two provided counts do not add up to the total
                        if let (Shape::Catch { tiny, .. }, Some(_), Some(t), Some(tm)) = (spec.shape, spec.acc, spec.slots[2], spec.slots[3]) {
                            if (sl == 2 || sl == 3) && t + tm < tiny {
                                return Some((
                                    "catch_tiny_counts_rederived_from_accuracy".into(),
                                    format!("provided {}={v} fits but the generated state has {}: {s1:?}", SLOT_NAMES[sl], g[sl]),
                                ));
                            }
                        }
                        return Some((
                            format!("{mode:?}_reduced_{}", SLOT_NAMES[sl]).to_lowercase(),
                            format!("provided {}={v} fits but the generated state has {}: {s1:?}", SLOT_NAMES[sl], g[sl]),
                        ));
                    }
                }
            }
        }
    }

    if mode != GameMode::Mania {
        let achievable = max_combo.saturating_sub(s1.misses);
        if s1.max_combo > achievable {
            return Some((
                format!("{mode:?}_combo").to_lowercase(),
                format!("generated max_combo {} above the achievable {} (map max {max_combo}, misses {}): {s1:?}", s1.max_combo, achievable, s1.misses),
            ));
        }
    }

    let r1 = spec.builder().calculate();
    let r2 = spec.base().state(s1.clone()).calculate();
    if !same(&r1, &r2) {
        return Some((
            format!("{mode:?}_calc_vs_state").to_lowercase(),
            format!("calculate() differs from .state(generated).calculate()\n generated={s1:?}\n calculate(): {r1:?}\n via state  : {r2:?}"),
        ));
    }
    None
}

fn shapes(ctx: &Ctx) -> Vec<Shape> {
    let q = ctx.quick();
    let mut v = Vec::new();
    for circles in 0..=ctx.pick(2, 3) {
        for sliders in 0..=ctx.pick(1, 2) {
            for spinners in 0..=1 {
                for ticks in 0..=ctx.pick(1, 2) {
                    if sliders == 0 && ticks > 0 {
                        continue;
                    }
                    v.push(Shape::Osu { circles, sliders, spinners, ticks });
                }
            }
        }
    }
    for combo in 0..=ctx.pick(4, 5) {
        v.push(Shape::Taiko { combo });
    }
    for fruits in 0..=ctx.pick(3, 4) {
        for droplets in 0..=ctx.pick(1, 2) {
            for tiny in 0..=ctx.pick(2, 3) {
                v.push(Shape::Catch { fruits, droplets, tiny });
            }
        }
    }
    for objects in 0..=ctx.pick(4, 5) {
        for holds in 0..=ctx.pick(1, 2).min(objects) {
            v.push(Shape::Mania { objects, holds });
        }
    }
    let _ = q;
    v
}

fn main() {
    let ctx = Ctx::from_env("C12");
    ctx.rule("case = (attribute shape, provided/absent pattern with values from {absent,0,1,[2,]N,[N+1,]N+3} for every hit result of the mode, accuracy, priority, lazer / stable / lazer Classic / Classic+HD as &GameModsIntermode origin, passed_objects, combo, slider-hit spec); oracle = misses <= objects; provided results that fit are not reduced and the results add up to the number of judgements; combo <= max_combo - misses; generate_state idempotent; calculate() == .state(generated).calculate(); map-backed builders agree with attribute-backed ones; on mania maps (N<=3/4 notes and holds in 2 columns) under Invert / HoldOff / both the results add up to the judgements of the rebuilt map (objects = values of a gradual walk); non-trivial = shape has at least one object and at least one hit result is provided");
    ctx.assume("attribute shapes are synthetic (built directly, no map); number of judgements as documented: objects, plus hold notes for lazer non-classic mania");

    let shapes = shapes(&ctx);
    let accs: Vec<Option<f64>> = vec![None, Some(0.0), Some(50.0), Some(93.7), Some(100.0)];
    for (si, shape) in shapes.iter().enumerate() {
        let mode = shape.mode();
        let n = match *shape {
            Shape::Osu { circles, sliders, spinners, .. } => circles + sliders + spinners,
            Shape::Taiko { combo } => combo,
            Shape::Catch { fruits, droplets, .. } => fruits + droplets,
            Shape::Mania { objects, .. } => objects,
        };
        let mc = match shape.attrs() {
            DifficultyAttributes::Mania(a) => a.max_combo,
            a => a.max_combo(),
        };
        let mut vals: Vec<Option<u32>> = if ctx.quick() { vec![None, Some(0), Some(1), Some(n), Some(n + 3)] } else { vec![None, Some(0), Some(1), Some(2), Some(n), Some(n + 1), Some(n + 3)] };
        vals.dedup();
        let mut uniq: Vec<Option<u32>> = Vec::new();
        for v in vals {
            if !uniq.contains(&v) {
                uniq.push(v);
            }
        }
        let vals = uniq;
        let used = used_slots(mode);
        let passed_menu: Vec<Option<u32>> = if mode == GameMode::Catch {
            vec![None]
        } else if ctx.quick() {
            vec![None, Some(0), Some(1), Some(n + 1)]
        } else {
            vec![None, Some(0), Some(1), Some(n), Some(n + 1)]
        };
        let combo_menu: Vec<Option<u32>> = if mode == GameMode::Mania {
            vec![None]
        } else if ctx.quick() {
            vec![None, Some(1), Some(mc + 5)]
        } else {
            vec![None, Some(0), Some(1), Some(mc), Some(mc + 5)]
        };
        let origins: u64 = if matches!(mode, GameMode::Osu | GameMode::Mania) { 4 } else { 1 };
        let slider_specs: u64 = if mode == GameMode::Osu { 4 } else { 1 };
        let prios: u64 = if mode == GameMode::Catch { 1 } else { 2 };

        let mut radices: Vec<u64> = used.iter().map(|_| vals.len() as u64).collect();
        radices.extend([accs.len() as u64, prios, origins, passed_menu.len() as u64, combo_menu.len() as u64, slider_specs]);
        let total = product(&radices);
        let name = format!("shape{si}/{shape:?}").replace(' ', "");
        ctx.universe(&name, total, |idx, l: &mut Local<'_>| {
            let mut digits = vec![0u64; radices.len()];
            unrank(idx, &radices, &mut digits);
            let mut slots = [None; 6];
            for (k, &sl) in used.iter().enumerate() {
                slots[sl] = vals[digits[k] as usize];
            }
            let b = used.len();
            let spec = Spec {
                shape: *shape,
                slots,
                acc: accs[digits[b] as usize],
                worst: digits[b + 1] == 1,
                origin: digits[b + 2] as u8,
                passed: passed_menu[digits[b + 3] as usize],
                combo: combo_menu[digits[b + 4] as usize],
                slider_spec: digits[b + 5] as u8,
            };
            if n > 0 && slots.iter().any(Option::is_some) {
                l.nontrivial();
            }
            if l.want_sample() && si % 7 == 0 {
                let mut o = J::obj();
                o.set("universe", J::s(name.clone()));
                o.set("index", J::i(idx));
                o.set("spec", J::s(format!("{spec:?}")));
                l.sample(o);
            }
            l.states(1);
            l.checked(4);
            if let Some((class, msg)) = check(&spec) {
                l.violation(&class, || format!("spec={spec:?}\n{msg}"));
            }
        });
    }
    // map-backed builders: the same specification on Performance::new(&map) and on Performance::new(attributes of that map)
    // must generate the same state, obeying the same invariants (the builder must not trust a fully specified state more
    // because it holds a map)
    {
        use vh::gen::{Kind, MapSpec, Obj, PosK};
        let o = |k, gap, pos, col| Obj { kind: k, gap, pos, sound: 0, col };
        let specs: Vec<MapSpec> = vec![
            MapSpec::new(0, vec![o(Kind::Circle, 0, PosK::Same, 0), o(Kind::SliderLong, 150, PosK::Far, 0), o(Kind::Circle, 600, PosK::Far, 0), o(Kind::Spinner(600), 150, PosK::Same, 0)]),
            MapSpec::new(1, vec![o(Kind::Circle, 0, PosK::Same, 0), o(Kind::Circle, 150, PosK::Far, 0), o(Kind::Slider2, 150, PosK::Far, 0), o(Kind::Circle, 600, PosK::Far, 0)]),
            MapSpec::new(2, vec![o(Kind::Circle, 0, PosK::Same, 0), o(Kind::SliderLong, 150, PosK::Far, 0), o(Kind::Circle, 600, PosK::Far, 0)]),
            MapSpec::new(3, vec![o(Kind::Circle, 0, PosK::Same, 0), o(Kind::Hold(300), 150, PosK::Same, 2), o(Kind::Circle, 150, PosK::Same, 1), o(Kind::Hold(100), 100, PosK::Same, 0)]),
        ];
        for spec in specs {
            let map = spec.decode();
            let attrs = Difficulty::new().calculate(&map);
            let n = map.hit_objects.len() as u32;
            let vals: Vec<Option<u32>> = vec![None, Some(0), Some(1), Some(n), Some(n + 3)];
            // slots n300, n100, n50, n_katu, n_geki, misses, combo, (large ticks / slider ends), accuracy, origin
            let radices: Vec<u64> = vec![5, 5, 5, 5, 5, 5, 5, 3, 3, 3];
            let total = product(&radices);
            let name = format!("map-backed/mode{}", spec.mode);
            ctx.universe(&name, total, |idx, l: &mut Local<'_>| {
                let mut d = vec![0u64; radices.len()];
                unrank(idx, &radices, &mut d);
                fn id<'a, F: Fn(Performance<'a>) -> Performance<'a>>(f: F) -> F {
                    f
                }
                let apply = id(|mut p| {
                    match d[9] {
                        1 => p = p.lazer(false),
                        2 => p = p.mods(ModSpec::Classic(None).build(map.mode)),
                        _ => {}
                    }
                    if let Some(v) = vals[d[0] as usize] { p = p.n300(v); }
                    if let Some(v) = vals[d[1] as usize] { p = p.n100(v); }
                    if let Some(v) = vals[d[2] as usize] { p = p.n50(v); }
                    if let Some(v) = vals[d[3] as usize] { p = p.n_katu(v); }
                    if let Some(v) = vals[d[4] as usize] { p = p.n_geki(v); }
                    if let Some(v) = vals[d[5] as usize] { p = p.misses(v); }
                    if let Some(v) = vals[d[6] as usize] { p = p.combo(v * 3); }
                    match d[7] {
                        1 => p = p.large_tick_hits(0).small_tick_hits(0).slider_end_hits(0),
                        2 => p = p.large_tick_hits(n + 3).small_tick_hits(n + 3).slider_end_hits(n + 3),
                        _ => {}
                    }
                    match d[8] {
                        1 => p = p.accuracy(50.0),
                        2 => p = p.accuracy(100.0),
                        _ => {}
                    }
                    p
                });
                let mut pm = apply(Performance::new(map.clone()));
                let mut pa = apply(Performance::new(attrs.clone()));
                let (sm, sa) = (pm.generate_state(), pa.generate_state());
                l.states(1);
                l.checked(2);
                l.nontrivial();
                // the origin given through the calculator's own setter (above) or through a Difficulty: the same state
                if d[9] != 0 {
                    let origin = if d[9] == 1 { Difficulty::new().lazer(false) } else { Difficulty::new().mods(ModSpec::Classic(None).build(map.mode)) };
                    // (apply() sets the origin once more through the setter, after the Difficulty: both say the same)
                    let mut pd = apply(Performance::new(map.clone()).difficulty(origin.clone()));
                    // and with the Difficulty last, replacing whatever the setter did
                    let sd2 = {
                        let mut p = apply(Performance::new(map.clone())).difficulty(origin);
                        p.generate_state()
                    };
                    let sd = pd.generate_state();
                    l.checked(2);
                    if sd != sm || sd2 != sm {
                        l.violation("origin_setter_vs_difficulty", || format!("mode {} digits={d:?}\norigin through the setter          : {sm:?}\norigin through a Difficulty + setter: {sd:?}\norigin through a Difficulty (last)  : {sd2:?}\n--- .osu ---\n{}", spec.mode, spec.text()));
                        return;
                    }
                }
                if sm != sa {
                    l.violation("map_vs_attrs_state", || format!("mode {} digits={d:?}\nthe builder holding the map generates {sm:?}\nthe builder holding its attributes generates {sa:?}\n--- .osu ---\n{}", spec.mode, spec.text()));
                    return;
                }
                // (misses <= objects is decided on the synthetic shapes, where the number of judgements is known exactly)
                if map.mode != GameMode::Mania && sm.max_combo > attrs.max_combo() {
                    l.violation("map_backed_bounds", || format!("mode {} digits={d:?}: generated {sm:?} on a map with {n} objects and max combo {}", spec.mode, attrs.max_combo()));
                    return;
                }
                let (rm, ra) = (pm.calculate(), pa.calculate());
                l.checked(2);
                if !same(&rm, &ra) {
                    l.violation("map_vs_attrs_result", || format!("mode {} digits={d:?}\n map  : {rm:?}\n attrs: {ra:?}", spec.mode));
                }
            });
        }
    }
    // mania under mods that rebuild the object list inside the calculation (Invert, HoldOff, both): the number of judgements
    // a generated state must fill is the number of objects of the rebuilt map = the number of values a gradual walk yields
    {
        use vh::gen::{Alphabet, Kind, MapSpec, PosK};
        // (a spinner-type line in a mania file is a hold note as well)
        let alpha = Alphabet::product(&[Kind::Circle, Kind::Hold(300), Kind::Spinner(600)], &[0, 150], &[PosK::Same], &[0], &[0, 1]);
        let maxn = ctx.pick(3, 4);
        let total_maps = alpha.count_upto(maxn) - 1;
        let mods = [ModSpec::Bits(0), ModSpec::Invert, ModSpec::HoldOff, ModSpec::HoIn(None)];
        ctx.universe(&format!("map-backed/mania-rebuilding-mods/N<={maxn}"), total_maps * 4 * 2, |idx, l: &mut Local<'_>| {
            let spec = MapSpec::new(3, alpha.seq(1 + idx % total_maps, maxn));
            let r = idx / total_maps;
            let (m, lazer) = (&mods[(r % 4) as usize], r / 4 == 0);
            let map = spec.decode();
            let d = Difficulty::new().mods(m.build(GameMode::Mania)).lazer(lazer);
            let walk: Vec<DifficultyAttributes> = vh::api::gradual(d.clone(), &map, 3).expect("native").collect();
            let objects = walk.len() as u32;
            let holds = match walk.last() {
                Some(DifficultyAttributes::Mania(a)) => a.n_hold_notes,
                _ => 0,
            };
            // without a rebuilding mod the file itself says what there is to judge
            if matches!(m, ModSpec::Bits(0)) {
                let listed_holds = spec.objs.iter().filter(|o| matches!(o.kind, Kind::Hold(_) | Kind::Spinner(_))).count() as u32;
                if objects != spec.objs.len() as u32 || holds != listed_holds {
                    l.violation("mania_counts_vs_file", || format!("no mods: the file lists {} objects of which {listed_holds} are long (hold or spinner type), the calculation walks {objects} objects and counts {holds} hold notes\nspec={}\n--- .osu ---\n{}", spec.objs.len(), spec.describe(), spec.text()));
                    return;
                }
            }
            let judgements = objects + if lazer { holds } else { 0 };
            l.states(1);
            if objects > 0 {
                l.nontrivial();
            }
            if l.want_sample() {
                let mut o = J::obj();
                o.set("universe", J::s("map-backed/mania-rebuilding-mods"));
                o.set("index", J::i(idx));
                o.set("mods", J::s(format!("{m:?} lazer={lazer} objects={objects} holds={holds}")));
                l.sample(o);
            }
            type Set = (&'static str, fn(Performance<'_>) -> Performance<'_>);
            let builders: [Set; 4] = [("nothing provided", |p| p), ("misses(1000)", |p| p.misses(1000)), ("accuracy(50).misses(1)", |p| p.accuracy(50.0).misses(1)), ("n100(1)", |p| p.n100(1))];
            for (what, set) in builders {
                let mut p = set(Performance::new(&map).difficulty(d.clone()));
                let g = p.generate_state();
                l.checked(1);
                let hits = g.total_hits(GameMode::Mania);
                if g.misses > objects || hits != judgements {
                    l.violation("mania_rebuilt_map_judgements", || format!("mods {m:?} lazer={lazer}, {what}: generated {g:?} ({hits} results, {} misses) on a map that has {objects} objects and {holds} hold notes under these mods ({judgements} judgements)\nspec={}\n--- .osu ---\n{}", g.misses, spec.describe(), spec.text()));
                    return;
                }
            }
        });
    }
    ctx.finish();
}
