//! C07 — mode dispatch and map conversion are mutually consistent.

use rosu_pp::{any::ScoreState, model::mode::GameMode, Beatmap, Difficulty, GameMods, GradualDifficulty, GradualPerformance, Performance};
use vh::{
    api,
    cmp::{same, same_opt},
    gen::{self, ModeCfg},
    settings::{self, ModSpec},
    uni::UniOpts,
    Ctx, Local,
};

fn mods_menu(rich: bool) -> Vec<ModSpec> {
    let mut v = vec![
        ModSpec::Bits(0),
        ModSpec::Bits(settings::HR),
        ModSpec::Bits(settings::KEY4),
        ModSpec::Bits(settings::KEY7 | settings::DT),
        ModSpec::Bits(settings::KEY1),
        ModSpec::Bits(settings::KEY2),
        ModSpec::Bits(settings::KEY3),
        ModSpec::Bits(settings::KEY9),
        ModSpec::TenKeys,
        ModSpec::Random(Some(1337.0)),
        ModSpec::HoldOff,
        ModSpec::Invert,
        ModSpec::HoIn(Some(2.0)),
    ];
    if rich {
        v.extend([
            ModSpec::Bits(settings::KEY5),
            ModSpec::Bits(settings::KEY6),
            ModSpec::Bits(settings::KEY8),
            ModSpec::Random(None),
            ModSpec::Random(Some(0.0)),
            ModSpec::Mirror(None),
            ModSpec::Bits(settings::EZ | settings::HT),
        ]);
    }
    v
}

fn fail(l: &mut Local<'_>, class: &str, ctxs: &dyn Fn() -> String, msg: String) {
    l.violation(class, || format!("{}\n{msg}", ctxs()));
}

fn check(l: &mut Local<'_>, src: &Beatmap, target: u8, m: &ModSpec, dsets: &[Difficulty], desc: &dyn Fn() -> String) -> bool {
    let tmode = gen::game_mode(target);
    let mods: GameMods = m.build(tmode);
    let ctxs = || format!("{}\ntarget={tmode:?} mods={m:?}", desc());

    // three conversion entry points
    let by_value = src.clone().convert(tmode, &mods);
    let by_ref = src.convert_ref(tmode, &mods).map(std::borrow::Cow::into_owned);
    let mut in_place = src.clone();
    let r_mut = in_place.convert_mut(tmode, &mods);
    l.checked(3);
    let dbg = |r: &Result<Beatmap, rosu_pp::model::mode::ConvertError>| match r {
        Ok(m) => format!("Ok({m:?})"),
        Err(e) => format!("Err({e:?})"),
    };
    if dbg(&by_value) != dbg(&by_ref) {
        fail(l, "convert_vs_ref", &ctxs, format!("convert() and convert_ref() differ\n by value: {}\n by ref  : {}", dbg(&by_value), dbg(&by_ref)));
        return false;
    }
    let r_mut_map = r_mut.map(|()| in_place.clone());
    if dbg(&by_value) != dbg(&r_mut_map) {
        fail(l, "convert_vs_mut", &ctxs, format!("convert() and convert_mut() differ\n by value: {}\n in place: {}", dbg(&by_value), dbg(&r_mut_map)));
        return false;
    }
    if r_mut_map.is_err() && in_place != *src {
        fail(l, "failed_mut_modifies", &ctxs, "a failing convert_mut modified the map".into());
        return false;
    }
    let convertible = src.mode == tmode || (src.mode == GameMode::Osu && !src.is_convert);
    if by_value.is_ok() != convertible {
        fail(l, "who_converts", &ctxs, format!("conversion result is_ok={} but only un-converted osu! maps (or same mode) convert: src mode {:?} is_convert {}", by_value.is_ok(), src.mode, src.is_convert));
        return false;
    }
    let Ok(conv) = by_value else { return true };
    if src.mode == tmode {
        if conv != *src {
            fail(l, "identity", &ctxs, "conversion to the map's own mode is not the identity".into());
            return false;
        }
    } else if !conv.is_convert || conv.mode != tmode {
        fail(l, "marked", &ctxs, format!("converted map has mode {:?} is_convert {}", conv.mode, conv.is_convert));
        return false;
    }
    // converting again
    if conv.is_convert {
        for again in 0..4u8 {
            let r = conv.clone().convert(gen::game_mode(again), &mods);
            l.checked(1);
            let want_ok = again == target;
            if r.is_ok() != want_ok {
                fail(l, "reconvert", &ctxs, format!("converting the converted map again to {:?}: is_ok={} expected {}", gen::game_mode(again), r.is_ok(), want_ok));
                return false;
            }
            if !want_ok && !matches!(r, Err(rosu_pp::model::mode::ConvertError::AlreadyConverted)) {
                fail(l, "reconvert_err", &ctxs, format!("converting a convert again must fail with AlreadyConverted, got {r:?}"));
                return false;
            }
        }
    }

    // dispatch on the source map == calculation on the explicitly converted map
    for d0 in dsets {
        let d = d0.clone().mods(mods.clone());
        let a = api::difficulty(&d, src, target).expect("convertible");
        let b = d.calculate(&conv);
        l.checked(1);
        if !same(&a, &b) {
            fail(l, "calculate_for_mode", &ctxs, format!("calculate_for_mode on the source differs from calculate on the converted map\n source   : {a:?}\n converted: {b:?}"));
            return false;
        }
        if a.stars() > 0.0 {
            l.nontrivial();
        }
        let a = api::strains(&d, src, target).expect("convertible");
        let b = d.strains(&conv);
        l.checked(1);
        if !same(&a, &b) {
            fail(l, "strains_for_mode", &ctxs, "strains_for_mode on the source differs from strains on the converted map".into());
            return false;
        }
        let ga: Vec<_> = GradualDifficulty::new_with_mode(d.clone(), src, tmode).expect("convertible").collect();
        let gb: Vec<_> = GradualDifficulty::new(d.clone(), &conv).collect();
        l.checked(1);
        if ga.len() != gb.len() || ga.iter().zip(&gb).any(|(x, y)| !same(x, y)) {
            fail(l, "gradual_difficulty", &ctxs, format!("GradualDifficulty::new_with_mode on the source differs from GradualDifficulty::new on the converted map ({} vs {} values)", ga.len(), gb.len()));
            return false;
        }
        let st = ScoreState { n300: 1, n100: 1, max_combo: 2, ..ScoreState::new() };
        let mut pa = GradualPerformance::new_with_mode(d.clone(), src, tmode).expect("convertible");
        let mut pb = GradualPerformance::new(d.clone(), &conv);
        loop {
            let (x, y) = (pa.next(st.clone()), pb.next(st.clone()));
            l.checked(1);
            if !same_opt(&x, &y) {
                fail(l, "gradual_performance", &ctxs, format!("GradualPerformance::new_with_mode differs\n source   : {x:?}\n converted: {y:?}"));
                return false;
            }
            if x.is_none() {
                break;
            }
        }
        // Performance::try_mode / mode_or_ignore (mods applied before, as documented)
        let want = Performance::new(&conv).difficulty(d.clone()).accuracy(97.0).calculate();
        let via_try = Performance::new(src).difficulty(d.clone()).try_mode(tmode);
        l.checked(2);
        match via_try {
            Ok(p) => {
                let got = p.accuracy(97.0).calculate();
                if !same(&got, &want) {
                    fail(l, "try_mode", &ctxs, format!("Performance::try_mode differs from Performance on the converted map\n try_mode : {got:?}\n converted: {want:?}"));
                    return false;
                }
            }
            Err(_) => {
                fail(l, "try_mode_err", &ctxs, "Performance::try_mode failed on a convertible map".into());
                return false;
            }
        }
        let got = Performance::new(src.clone()).difficulty(d.clone()).mode_or_ignore(tmode).accuracy(97.0).calculate();
        if !same(&got, &want) {
            fail(l, "mode_or_ignore", &ctxs, format!("Performance::mode_or_ignore differs\n got : {got:?}\n want: {want:?}"));
            return false;
        }
        // the builder's whole configuration (not only the Difficulty) must survive the mode switch
        {
            use rosu_pp::any::HitResultPriority;
            type Cfg = (&'static str, fn(Performance<'_>) -> Performance<'_>);
            let cfgs: [Cfg; 5] = [
                ("hitresult_priority(WorstCase)", |p| p.hitresult_priority(HitResultPriority::WorstCase)),
                ("hitresult_priority(WorstCase).accuracy(85)", |p| p.hitresult_priority(HitResultPriority::WorstCase).accuracy(85.0)),
                ("accuracy(91).misses(1)", |p| p.accuracy(91.0).misses(1)),
                ("combo(1).n100(1).n50(1)", |p| p.combo(1).n100(1).n50(1)),
                // (setters that an osu! calculator does not have — n_geki, n_katu — are dropped by design and not used here)
                ("accuracy(70).misses(1).passed_objects(2)", |p| p.accuracy(70.0).misses(1).passed_objects(2)),
            ];
            for (cname, f) in cfgs {
                let want = f(Performance::new(&conv).difficulty(d.clone())).calculate();
                let got = f(Performance::new(src).difficulty(d.clone())).try_mode(tmode).ok().map(Performance::calculate);
                let got2 = f(Performance::new(src.clone()).difficulty(d.clone())).mode_or_ignore(tmode).calculate();
                l.checked(3);
                if !same_opt(&got, &Some(want.clone())) || !same(&got2, &want) {
                    fail(l, "configuration_lost_in_switch", &ctxs, format!("Performance configured with {cname} and then switched with try_mode / mode_or_ignore differs from the same configuration on the converted map\n try_mode      : {got:?}\n mode_or_ignore: {got2:?}\n converted     : {want:?}"));
                    return false;
                }
            }
        }
        // mode-specific entry: OsuPerformance::try_mode
        if src.mode == GameMode::Osu {
            let got = rosu_pp::osu::OsuPerformance::new(src).difficulty(d.clone()).try_mode(tmode).ok().map(|p| p.accuracy(97.0).calculate());
            if !same_opt(&got, &Some(want.clone())) {
                fail(l, "osu_try_mode", &ctxs, "OsuPerformance::try_mode differs".into());
                return false;
            }
        }
    }
    true
}

fn main() {
    let ctx = Ctx::from_env("C07");
    ctx.rule("case = (native mode, grammar map); per case: every target mode x mods menu (key mods 1K-9K, 10K, Random seeds, HoldOff, Invert, HR, ...) x 5 Difficulty settings (two with passed_objects); oracle = the three conversion entry points agree (maps or errors), failing convert_mut leaves the map untouched, same-mode = identity, only un-converted osu! converts, result marked; calculate_for_mode / strains_for_mode / GradualDifficulty::new_with_mode / GradualPerformance::new_with_mode / Performance::try_mode / mode_or_ignore on the source equal the call on the explicitly converted map; five builder configurations (priority, accuracy, misses, combo, counts, passed_objects) applied before try_mode / mode_or_ignore must give what they give on the converted map; already-converted maps as inputs too; non-trivial = stars > 0");

    // thorough keeps N <= 3 but uses the wide alphabet and the rich mods menu (N <= 4 does not finish inside the cap)
    let n_max = 3;
    let mut opts = UniOpts::new(n_max);
    opts.cfgs = (0..4).map(|m| ModeCfg { src: m, dst: m }).collect();
    opts.sounds = vec![0, 8];
    if ctx.quick() {
        opts.poss = vec![vh::gen::PosK::Far];
        opts.gaps = vec![0, 150];
        opts.mania_cols = vec![0];
    }
    // (the last two: a prefix — what counts as "the first n objects" must not depend on where the conversion happens)
    let dsets = [Difficulty::new(), Difficulty::new().clock_rate(1.3).od(8.3, false), Difficulty::new().lazer(false).ar(9.7, true), Difficulty::new().passed_objects(2), Difficulty::new().passed_objects(1).clock_rate(0.8)];
    let menu = mods_menu(!ctx.quick());
    for u in opts.build() {
        ctx.universe(&u.name, u.total, |idx, l| {
            let (spec, map) = u.decode(idx);
            u.sample(l, idx, &spec, "4 target modes x mods menu x 5 Difficulty settings");
            let desc = || format!("spec={}\n--- .osu ---\n{}", spec.describe(), spec.text());
            for target in 0..4u8 {
                for m in &menu {
                    l.states(1);
                    if !check(l, &map, target, m, &dsets, &desc) {
                        return;
                    }
                    // already converted input
                    if map.mode == GameMode::Osu && target != 0 {
                        let conv = map.clone().convert(gen::game_mode(target), &m.build(gen::game_mode(target))).expect("convertible");
                        for t2 in 0..4u8 {
                            if !check(l, &conv, t2, m, &dsets[..1], &|| format!("(input = result of converting to {target})\n{}", desc())) {
                                return;
                            }
                        }
                    }
                }
            }
        });
    }
    // maps that `check_suspicion` flags (two objects more than a day apart; more than 100 objects inside one second) are
    // still maps: every conversion / dispatch entry point must treat them alike
    {
        let o = |gap: u32| vh::gen::Obj { kind: vh::gen::Kind::Circle, gap, pos: vh::gen::PosK::Far, sound: 0, col: 0 };
        let specs = [
            vh::gen::MapSpec::new(0, vec![o(0), o(150), o(90_000_000)]),
            vh::gen::MapSpec { stream: (120, 5), ..vh::gen::MapSpec::new(0, vec![o(0)]) },
        ];
        let one = [Difficulty::new()];
        ctx.universe("suspicious-maps/far-apart-and-dense", (specs.len() * 4) as u64, |idx, l| {
            let spec = &specs[idx as usize / 4];
            let target = (idx % 4) as u8;
            let map = spec.decode();
            l.states(1);
            if map.check_suspicion().is_err() {
                l.nontrivial();
            }
            let desc = || format!("spec={}", spec.describe());
            check(l, &map, target, &ModSpec::Bits(0), &one, &desc);
        });
    }
    ctx.finish();
}
