//! C01 helper — the "address seam": results must not depend on where the heap puts a buffer.
//!
//! This binary's global allocator places every allocation of at least 64 bytes whose alignment is at most 8 (all the
//! `Vec<f64>`, `Vec<HitObject>`, ... of a calculation) at `64-byte boundary + PHASE`. The driver runs every operation under
//! all eight phases {0, 8, ..., 56}: every alignment class modulo 64 that such a buffer can have. (Freeing masks the phase
//! off again, so the phase may change while blocks are alive.) Any code that groups, chunks or vectorises "from the first
//! aligned element" sees a different split per phase.
use std::{
    alloc::{GlobalAlloc, Layout, System},
    sync::atomic::{AtomicUsize, Ordering},
};

use rosu_pp::{Beatmap, Difficulty, Performance};
use vh::{
    api,
    cmp::{canon, digest},
    gen::{self, Kind, MapSpec, Obj, PosK},
};

static PHASE: AtomicUsize = AtomicUsize::new(0);

struct PhaseAlloc;

fn eligible(l: &Layout) -> bool {
    l.align() <= 8 && l.size() >= 64
}

// SAFETY: eligible blocks come from System with 64 extra bytes and 64-byte alignment; the pointer handed out is base + phase
// with phase < 64 and a multiple of 8, so it satisfies every alignment <= 8 and `ptr & !63` recovers the base for freeing
unsafe impl GlobalAlloc for PhaseAlloc {
    unsafe fn alloc(&self, l: Layout) -> *mut u8 {
        if !eligible(&l) {
            return System.alloc(l);
        }
        let Ok(big) = Layout::from_size_align(l.size() + 64, 64) else { return std::ptr::null_mut() };
        let base = System.alloc(big);
        if base.is_null() {
            return base;
        }
        base.add(PHASE.load(Ordering::Relaxed))
    }

    unsafe fn dealloc(&self, p: *mut u8, l: Layout) {
        if !eligible(&l) {
            return System.dealloc(p, l);
        }
        let base = (p as usize & !63) as *mut u8;
        System.dealloc(base, Layout::from_size_align_unchecked(l.size() + 64, 64));
    }
}

#[global_allocator]
static ALLOC: PhaseAlloc = PhaseAlloc;

fn maps() -> Vec<(String, Beatmap)> {
    let o = |kind, gap, pos, sound| Obj { kind, gap, pos, sound, col: 0 };
    let mut v: Vec<(String, Beatmap)> = Vec::new();
    // long synthetic maps: 600 sliders; 300 x (circle, two-span slider, spinner); 250 x a jumpy four-object motif
    let specs = [
        MapSpec { repeat: 600, ..MapSpec::new(0, vec![o(Kind::Slider1, 150, PosK::Far, 0)]) },
        MapSpec { repeat: 300, ..MapSpec::new(0, vec![o(Kind::Circle, 120, PosK::Far, 8), o(Kind::Slider2, 150, PosK::Near, 0), o(Kind::Spinner(600), 300, PosK::Same, 0)]) },
        MapSpec { repeat: 250, diff: gen::DiffPreset::D8, ..MapSpec::new(0, vec![o(Kind::Circle, 90, PosK::Far, 0), o(Kind::Circle, 90, PosK::Far, 2), o(Kind::Slider5, 180, PosK::Far, 0), o(Kind::Circle, 250, PosK::Same, 4)]) },
    ];
    for s in specs {
        v.push((s.describe().chars().take(160).collect(), s.decode()));
    }
    for (path, _) in gen::fixture_paths() {
        if let Ok(m) = Beatmap::from_path(path) {
            v.push((format!("fixture {path}"), m));
        }
    }
    v
}

fn ops(map: &Beatmap) -> Vec<(String, u64)> {
    let mut out = Vec::new();
    let targets: Vec<u8> = if map.mode as u8 == 0 { vec![0, 1, 2, 3] } else { vec![map.mode as u8] };
    for t in targets {
        for (dn, d) in [("nm", Difficulty::new()), ("HDHRDT", Difficulty::new().mods(88u32))] {
            let a = api::difficulty(&d, map, t).expect("reachable");
            out.push((format!("difficulty mode{t} {dn}"), digest(&canon(&format!("{a:?}")))));
            let s = api::strains(&d, map, t).expect("reachable");
            out.push((format!("strains mode{t} {dn}"), digest(&canon(&format!("{s:?}")))));
            let p = Performance::new(map).difficulty(d.clone()).try_mode(gen::game_mode(t)).ok().map(|p| p.accuracy(97.5).misses(2).calculate());
            out.push((format!("performance mode{t} {dn}"), digest(&canon(&format!("{p:?}")))));
            let g = api::gradual(d.clone(), map, t).expect("reachable").last();
            out.push((format!("gradual-last mode{t} {dn}"), digest(&canon(&format!("{g:?}")))));
        }
    }
    out
}

fn main() {
    let mut maps = maps();
    // `c01_phase <k>`: only the k-th map (the driver runs one process per map, in parallel); `c01_phase count`: how many
    match std::env::args().nth(1).as_deref() {
        Some("count") => {
            println!("{}", maps.len());
            return;
        }
        Some(k) => {
            if let Ok(k) = k.parse::<usize>() {
                maps = maps.into_iter().skip(k).take(1).collect();
            }
        }
        None => {}
    }
    let mut cases = 0u64;
    let mut diffs = 0u64;
    for (name, map) in &maps {
        PHASE.store(0, Ordering::Relaxed);
        // decode again under each phase too: the decoder's buffers are heap buffers as well
        let reference = ops(map);
        // control: the same placement once more (a difference here is plain nondeterminism, not address dependence)
        let again = ops(&map.clone());
        for ((op, a), (_, b)) in reference.iter().zip(&again) {
            cases += 1;
            if a != b {
                diffs += 1;
                if diffs <= 8 {
                    println!("PHASE-NONDET\t{name}\t{op}\ttwo executions under the same placement: digest {a:x}, then {b:x}");
                }
            }
        }
        for phase in [8usize, 16, 24, 32, 40, 48, 56] {
            PHASE.store(phase, Ordering::Relaxed);
            let fresh = map.clone();
            let got = ops(&fresh);
            for ((op, a), (_, b)) in reference.iter().zip(&got) {
                cases += 1;
                if a != b {
                    diffs += 1;
                    if diffs <= 8 {
                        println!("PHASE-DIFF\t{name}\t{op}\tphase 0 digest {a:x}, phase {phase} digest {b:x}");
                    }
                }
            }
        }
        PHASE.store(0, Ordering::Relaxed);
    }
    println!("PHASE-DONE\tmaps={}\tcomparisons={cases}\tdiffs={diffs}", maps.len());
}
