//! C15 — gradual calculators obey the iterator protocol.
//!
//! E2 explicit-state exploration: operations on a live gradual calculator (fresh object per
//! history, handlers replayed), reference = the values of plain `next()` iteration plus a position.

use rosu_pp::{any::DifficultyAttributes, any::ScoreState, Beatmap, Difficulty};
use vh::{
    api,
    cmp::{canon, same_opt},
    explore::{self, Model, Outcome},
    gen::{self, Alphabet, Kind, MapSpec, ModeCfg, PosK, MODE_CFGS},
    json::J,
    settings::{self, Setting},
    Ctx, Local,
};

#[derive(Clone, Debug, PartialEq)]
enum Op {
    Next,
    Nth(usize),
    Len,
    SizeHint,
    // terminal: consume the rest through a std adaptor and compare with the reference slice
    StepBy(usize),
    Skip(usize),
    Collect,
    Last,
    Count,
    Zip,
    SkipThenNext(usize),
}

struct DiffModel<'a> {
    map: &'a Beatmap,
    dst: u8,
    d: Difficulty,
    /// reference sequence: plain next() iteration on a fresh calculator
    r: Vec<DifficultyAttributes>,
}

impl DiffModel<'_> {
    fn fresh(&self) -> rosu_pp::GradualDifficulty {
        api::gradual(self.d.clone(), self.map, self.dst).expect("convertible")
    }
}

fn dbg_opt(v: &Option<DifficultyAttributes>) -> String {
    canon(&format!("{v:?}"))
}

impl Model for DiffModel<'_> {
    type Op = Op;
    /// (position, calls made after exhaustion)
    type Key = (usize, u8);

    fn ops(&self, hist: &[Op]) -> Vec<Op> {
        // terminal ops end a history
        if matches!(hist.last(), Some(Op::StepBy(_) | Op::Skip(_) | Op::Collect | Op::Last | Op::Count | Op::Zip | Op::SkipThenNext(_))) {
            return Vec::new();
        }
        let n = self.r.len();
        let mut v = vec![
            Op::Next,
            Op::Nth(0),
            Op::Nth(1),
            Op::Nth(2),
            Op::Nth(3),
            Op::Nth(n),
            Op::Nth(n + 1),
            Op::Nth(usize::MAX),
            Op::Len,
            Op::SizeHint,
            Op::StepBy(2),
            Op::StepBy(3),
            Op::Skip(1),
            Op::Skip(2),
            Op::Skip(n),
            Op::Skip(n + 2),
            Op::SkipThenNext(1),
            Op::Collect,
            Op::Last,
            Op::Count,
            Op::Zip,
        ];
        v.dedup();
        v
    }

    fn run(&self, hist: &[Op]) -> Outcome<(usize, u8)> {
        let mut g = self.fresh();
        let n = self.r.len();
        let mut p = 0usize; // reference position
        let mut after = 0u8;
        let mut checked = 0u64;
        let mut last_obs = String::from("-");
        let fail = |msg: String, checked| Outcome { key: None, obs: String::new(), verdict: Some(msg), checked };

        for (step, op) in hist.iter().enumerate() {
            if p >= n {
                after = after.saturating_add(1);
            }
            match op {
                Op::Next | Op::Nth(_) => {
                    let k = if let Op::Nth(k) = op { *k } else { 0 };
                    let got = if matches!(op, Op::Next) { g.next() } else { g.nth(k) };
                    let idx = p.checked_add(k);
                    let want = idx.and_then(|i| self.r.get(i)).cloned();
                    p = match idx {
                        Some(i) if i < n => i + 1,
                        _ => n,
                    };
                    checked += 1;
                    if !same_opt(&got, &want) {
                        return fail(
                            format!("step {step} {op:?}: returned {} but plain iteration gives {}", dbg_opt(&got), dbg_opt(&want)),
                            checked,
                        );
                    }
                    last_obs = dbg_opt(&got);
                }
                Op::Len => {
                    use std::iter::ExactSizeIterator;
                    let got = ExactSizeIterator::len(&g);
                    checked += 1;
                    if got != n - p {
                        return fail(format!("step {step} len()={got} but {} values remain", n - p), checked);
                    }
                }
                Op::SizeHint => {
                    let got = g.size_hint();
                    checked += 1;
                    if got != (n - p, Some(n - p)) {
                        return fail(format!("step {step} size_hint()={got:?} but {} values remain", n - p), checked);
                    }
                }
                term => {
                    // terminal adaptors
                    let rest: Vec<DifficultyAttributes> = self.r[p..].to_vec();
                    let (got, want): (Vec<DifficultyAttributes>, Vec<DifficultyAttributes>) = match term {
                        Op::StepBy(s) => (g.step_by(*s).collect(), rest.into_iter().step_by(*s).collect()),
                        Op::Skip(s) => (g.skip(*s).collect(), rest.into_iter().skip(*s).collect()),
                        Op::SkipThenNext(s) => {
                            let mut it = g.skip(*s);
                            let mut rt = rest.into_iter().skip(*s);
                            let a: Vec<_> = [it.next(), it.next()].into_iter().flatten().collect();
                            let b: Vec<_> = [rt.next(), rt.next()].into_iter().flatten().collect();
                            (a, b)
                        }
                        Op::Collect => (g.collect(), rest),
                        Op::Last => (g.last().into_iter().collect(), rest.last().cloned().into_iter().collect()),
                        Op::Count => {
                            let c = g.count();
                            checked += 1;
                            if c != rest.len() {
                                return fail(format!("step {step} count()={c} but {} values remain", rest.len()), checked);
                            }
                            (Vec::new(), Vec::new())
                        }
                        Op::Zip => {
                            let h = self.fresh();
                            let a: Vec<_> = g.zip(h).map(|(a, _)| a).collect();
                            let b: Vec<_> = rest.into_iter().zip(self.r.iter()).map(|(a, _)| a).collect();
                            (a, b)
                        }
                        _ => unreachable!(),
                    };
                    checked += 1;
                    if got.len() != want.len() || got.iter().zip(&want).any(|(a, b)| !vh::cmp::same(a, b)) {
                        return fail(
                            format!(
                                "step {step} {term:?} from position {p}: adaptor saw {} values, plain iteration gives {}\n got : {}\n want: {}",
                                got.len(),
                                want.len(),
                                canon(&format!("{got:?}")),
                                canon(&format!("{want:?}"))
                            ),
                            checked,
                        );
                    }
                    return Outcome { key: None, obs: String::new(), verdict: None, checked };
                }
            }
        }
        // stop expanding after two calls past exhaustion
        let key = if after > 2 { None } else { Some((p, after)) };
        use std::iter::ExactSizeIterator;
        let obs = format!("len={} last={}", ExactSizeIterator::len(&g), if p >= n { "-".to_owned() } else { last_obs });
        Outcome { key, obs, verdict: None, checked }
    }
}

// ---------------------------------------------------------------- gradual performance

#[derive(Clone, Debug, PartialEq)]
enum POp {
    Next,
    Nth(usize),
    Last,
    Len,
}

struct PerfModel<'a> {
    map: &'a Beatmap,
    dst: u8,
    d: Difficulty,
    total: usize,
}

impl Model for PerfModel<'_> {
    type Op = POp;
    type Key = (usize, u8);

    fn ops(&self, _: &[POp]) -> Vec<POp> {
        vec![POp::Next, POp::Nth(0), POp::Nth(1), POp::Nth(2), POp::Nth(self.total), POp::Nth(usize::MAX), POp::Last, POp::Len]
    }

    fn run(&self, hist: &[POp]) -> Outcome<(usize, u8)> {
        let mut g = api::gradual_perf(self.d.clone(), self.map, self.dst).expect("convertible");
        let n = self.total;
        let mut p = 0usize;
        let mut after = 0u8;
        let mut checked = 0;
        let fail = |msg: String, checked| Outcome { key: None, obs: String::new(), verdict: Some(msg), checked };
        let state = ScoreState { n300: 1, max_combo: 1, ..ScoreState::new() };
        for (step, op) in hist.iter().enumerate() {
            if p >= n {
                after = after.saturating_add(1);
            }
            let k = match op {
                POp::Next => Some(0usize),
                POp::Nth(k) => Some(*k),
                POp::Last => Some(usize::MAX),
                POp::Len => None,
            };
            match k {
                None => {
                    checked += 1;
                    if g.len() != n - p {
                        return fail(format!("step {step} len()={} but {} objects remain", g.len(), n - p), checked);
                    }
                }
                Some(k) => {
                    let got = match op {
                        POp::Next => g.next(state.clone()),
                        POp::Last => g.last(state.clone()),
                        _ => g.nth(state.clone(), k),
                    };
                    let want_some = p < n;
                    let np = if want_some { p.saturating_add(k).saturating_add(1).min(n) } else { n };
                    checked += 1;
                    if got.is_some() != want_some {
                        return fail(format!("step {step} {op:?} at position {p}/{n}: returned is_some={} expected {}", got.is_some(), want_some), checked);
                    }
                    p = np;
                    checked += 1;
                    if g.len() != n - p {
                        return fail(
                            format!("step {step} {op:?}: must process min(n+1, remaining) objects: len() afterwards = {} but expected {}", g.len(), n - p),
                            checked,
                        );
                    }
                }
            }
        }
        let key = if after > 2 { None } else { Some((p, after)) };
        Outcome { key, obs: format!("len={}", g.len()), verdict: None, checked }
    }
}

fn check_case(l: &mut Local<'_>, cfg: ModeCfg, map: &Beatmap, setts: &[Setting], depth: usize, desc: &dyn Fn() -> String) {
    for s in setts {
        // a Difficulty that itself carries passed_objects(k): on maps of <= 4 objects (the protocol does not depend on more)
        if s.passed.is_some() && map.hit_objects.len() > 4 {
            continue;
        }
        let d = s.difficulty(gen::game_mode(cfg.dst));
        let r: Vec<DifficultyAttributes> = {
            let mut g = api::gradual(d.clone(), map, cfg.dst).expect("convertible");
            let mut v = Vec::new();
            while let Some(x) = g.next() {
                v.push(x);
                if v.len() > 4096 {
                    break;
                }
            }
            // once exhausted every further call returns None
            for _ in 0..3 {
                if g.next().is_some() {
                    l.violation("fused", || format!("{}\nsetting={s:?}\nnext() returned Some after None", desc()));
                    return;
                }
            }
            v
        };
        let total = r.len();
        if total > 0 {
            l.nontrivial();
        }
        let m = DiffModel { map, dst: cfg.dst, d: d.clone(), r };
        let (st, f) = explore::bfs(&m, depth);
        l.states(st.states);
        l.checked(st.checked);
        if let Some(f) = f {
            let class = format!("diff_{}", f.hist.last().map_or("init".to_owned(), |o| format!("{o:?}").split('(').next().unwrap_or("").to_owned()));
            l.violation(&class, || format!("{}\nsetting={s:?}\nhistory={:?}\n{}", desc(), f.hist, f.msg));
            return;
        }
        let pm = PerfModel { map, dst: cfg.dst, d, total };
        let (st, f) = explore::bfs(&pm, depth);
        l.states(st.states);
        l.checked(st.checked);
        if let Some(f) = f {
            l.violation("perf", || format!("{}\nsetting={s:?}\ngradual performance history={:?}\n{}", desc(), f.hist, f.msg));
            return;
        }
    }
}

fn main() {
    let ctx = Ctx::from_env_caps("C15", 50, 1500);
    ctx.rule("case = (mode configuration, grammar map); per case and setting a BFS over all histories of next / nth(k) / len / size_hint (+ terminal std adaptors step_by, skip, collect, last, count, zip) on a fresh gradual difficulty calculator, and of next / nth / last / len on a gradual performance calculator; state key = (reference position, calls after exhaustion <= 2); settings = no mod, DT, for mania also Invert / HoldOff / both / Random on maps of <= 4 notes in two columns (lists that the mods shorten or empty), and (on maps of <= 4 objects) a Difficulty that itself carries passed_objects(0|1|2); reference = plain next() iteration of a fresh calculator built from the same Difficulty; universes 'overflow-checks/vdebug/*' repeat the search on maps of <= 2/3 objects in workers built with overflow checks and debug assertions; non-trivial = calculator yields at least one value");
    ctx.assume("values themselves are C02/C03's business; here only the protocol (which value, None, len) is decided");

    // the same protocol in a build with overflow checks and debug assertions (an index or length computation that wraps
    // silently in release panics here): small maps, every mode configuration, isolated workers
    {
        let root = std::path::PathBuf::from(std::env::var("VERIF_ROOT").unwrap_or_else(|_| "/verif".into()));
        ctx.set_worker_exe(Some(root.join("target/vdebug/c15")));
        for cfg in MODE_CFGS.iter() {
            let kinds = if cfg.src == 3 { vec![Kind::Circle, Kind::Hold(300)] } else { vec![Kind::Circle, Kind::Slider2, Kind::Spinner(600)] };
            let alpha = Alphabet::product(&kinds, &[150], &[PosK::Far], &[0], &[0]);
            let n_max = ctx.pick(2u32, 3);
            let setts = [Setting::nm()];
            let name = format!("overflow-checks/vdebug/{}to{}/N<={n_max}", cfg.src, cfg.dst);
            ctx.universe_isolated(&name, alpha.count_upto(n_max), 20.0, 2048, |idx, l| {
                let spec = MapSpec::new(cfg.src, alpha.seq(idx, n_max));
                let map = spec.decode();
                check_case(l, *cfg, &map, &setts, 8, &|| format!("cfg={cfg:?}\nspec={}\n--- .osu ---\n{}", spec.describe(), spec.text()));
            });
        }
        ctx.set_worker_exe(None);
    }
    let n_max: u32 = ctx.pick(5, 6);
    let depth = 12;
    for cfg in MODE_CFGS.iter() {
        let kinds = if cfg.src == 3 { vec![Kind::Circle, Kind::Hold(300)] } else { vec![Kind::Circle, Kind::Slider2, Kind::Spinner(600)] };
        let alpha = Alphabet::product(&kinds, &[0, 150], &[PosK::Same], &[0], &[0]);
        let mut setts = vec![Setting::nm(), Setting::bits(settings::DT), Setting { passed: Some(0), ..Setting::nm() }, Setting { passed: Some(1), ..Setting::nm() }, Setting { passed: Some(2), ..Setting::nm() }];
        // mods that switch skills off (the bulk path of nth and the single-step path of next must skip the same ones): on
        // maps of <= 4 objects like the limited settings
        setts.push(Setting { passed: Some(u32::MAX), ..Setting::bits(settings::RX) });
        if cfg.dst == 0 {
            setts.push(Setting { passed: Some(u32::MAX), ..Setting::bits(settings::AP) });
        }
        let total = alpha.count_upto(n_max);
        let name = format!("grammar/{}to{}/N<={}", cfg.src, cfg.dst, n_max);
        ctx.universe(&name, total, |idx, l| {
            let spec = MapSpec::new(cfg.src, alpha.seq(idx, n_max));
            let map = spec.decode();
            if l.want_sample() {
                let mut o = J::obj();
                o.set("universe", J::s(name.clone()));
                o.set("index", J::i(idx));
                o.set("map_spec", J::s(spec.describe()));
                o.set("ops", J::s("Next, Nth(0|1|2|3|N|N+1|usize::MAX), Len, SizeHint, StepBy(2|3), Skip(1|2|N|N+2), SkipThenNext(1), Collect, Last, Count, Zip ; perf: Next, Nth(0|1|2|N|MAX), Last, Len"));
                l.sample(o);
            }
            check_case(l, *cfg, &map, &setts, depth, &|| format!("cfg={cfg:?}\nspec={}\n--- .osu ---\n{}", spec.describe(), spec.text()));
        });
    }
    // mania under mods that rebuild the object list (Invert, HoldOff, both, Random): the calculator iterates whatever list the
    // mods leave — shorter than the map's, possibly empty (Invert on a column with a single note leaves nothing)
    for cfg in MODE_CFGS.iter().filter(|c| c.dst == 3) {
        let kinds = if cfg.src == 3 { vec![Kind::Circle, Kind::Hold(300)] } else { vec![Kind::Circle, Kind::Slider2] };
        let alpha = Alphabet::product(&kinds, &[0, 150], &[PosK::Same], &[0], &[0, 1]);
        let n_max = 4u32;
        let setts = [Setting::mods(settings::ModSpec::Invert), Setting::mods(settings::ModSpec::HoldOff), Setting::mods(settings::ModSpec::HoIn(None)), Setting::mods(settings::ModSpec::Random(Some(7.0)))];
        let name = format!("mania-rebuilding-mods/{}to{}/N<={n_max}", cfg.src, cfg.dst);
        ctx.universe(&name, alpha.count_upto(n_max), |idx, l| {
            let spec = MapSpec::new(cfg.src, alpha.seq(idx, n_max));
            let map = spec.decode();
            check_case(l, *cfg, &map, &setts, 8, &|| format!("cfg={cfg:?}\nspec={}\n--- .osu ---\n{}", spec.describe(), spec.text()));
        });
    }
    // degenerate sliders (a path without length with repeats; 10 px) among circles, every mode configuration
    for cfg in MODE_CFGS.iter().filter(|c| c.src != 3) {
        let alpha = Alphabet::product(&[Kind::Circle, Kind::SliderZeroRep, Kind::SliderTiny], &[0, 150], &[PosK::Same], &[0], &[0]);
        let n_max = 4u32;
        let setts = [Setting::nm()];
        let name = format!("degenerate-sliders/{}to{}/N<={n_max}", cfg.src, cfg.dst);
        ctx.universe(&name, alpha.count_upto(n_max), |idx, l| {
            let spec = MapSpec::new(cfg.src, alpha.seq(idx, n_max));
            let map = spec.decode();
            check_case(l, *cfg, &map, &setts, 10, &|| format!("cfg={cfg:?}\nspec={}\n--- .osu ---\n{}", spec.describe(), spec.text()));
        });
    }
    // converts under other slider velocities / tick rates (a slider becomes several objects of the target mode; how many
    // depends on velocity and tick rate): the protocol must hold for whatever the conversion yields
    for cfg in MODE_CFGS.iter().filter(|c| c.src != c.dst) {
        for preset in [gen::DiffPreset::D2, gen::DiffPreset::D3, gen::DiffPreset::D1] {
            let alpha = Alphabet::product(&[Kind::Circle, Kind::Slider1, Kind::Slider2, Kind::SliderLong], &[150], &[PosK::Far], &[0], &[0]);
            let n_max = 3u32;
            let setts = [Setting::nm()];
            let total = alpha.count_upto(n_max);
            let name = format!("converts-velocity/{preset:?}/{}to{}/N<={n_max}", cfg.src, cfg.dst);
            ctx.universe(&name, total, |idx, l| {
                let spec = MapSpec { diff: preset, ..MapSpec::new(cfg.src, alpha.seq(idx, n_max)) };
                let map = spec.decode();
                check_case(l, *cfg, &map, &setts, 8, &|| format!("cfg={cfg:?}\nspec={}\n--- .osu ---\n{}", spec.describe(), spec.text()));
            });
        }
    }
    ctx.finish();
}
