//! C10 — cargo features raw_strains and sync never change any result.
//!
//! The same enumeration is executed by four builds of this checker (rosu-pp with {}, {raw_strains},
//! {sync}, {raw_strains, sync}); per-case digests of the canonical results are compared case by case.

use std::{io::Write, path::PathBuf, process::Command, sync::atomic::{AtomicU64, Ordering}};

use vh::{
    battery,
    gen::{Kind, MapSpec, ModeCfg, PosK},
    json::J,
    settings::{self, ModSpec, Setting},
    uni::{MapUniverse, UniOpts},
    ctx::{UniverseStat, Violation},
    Ctx, Tier,
};

const VARIANTS: [&str; 4] = ["none", "raw_strains", "sync", "raw_strains+sync"];

fn universes(tier: Tier) -> Vec<MapUniverse> {
    let quick = tier == Tier::Quick;
    let mut out = Vec::new();
    // (a) the C02-like universe, (b) very long empty stretches: 7 s and 700 s gaps (runs of zero sections, strains decaying
    // through the subnormal range), objects before time zero
    let mut a = UniOpts::new(if quick { 2 } else { 3 });
    a.cfgs = (0..4).map(|m| ModeCfg { src: m, dst: m }).collect();
    a.gaps = vec![0, 150, 1000];
    a.tag = "/dense".into();
    out.extend(a.build());
    let mut b = UniOpts::new(if quick { 3 } else { 4 });
    b.cfgs = (0..4).map(|m| ModeCfg { src: m, dst: m }).collect();
    b.kinds_std = vec![Kind::Circle, Kind::Slider2];
    b.kinds_mania = vec![Kind::Circle, Kind::Hold(300)];
    b.gaps = vec![150, 7000, 700_000];
    b.poss = vec![PosK::Far];
    b.mania_cols = vec![0];
    b.first_start = -500;
    b.tag = "/long-gaps".into();
    out.extend(b.build());
    // (c) periodic longer maps: motifs of <= 2 objects repeated 6 times
    let mut c = UniOpts::new(if quick { 2 } else { 3 });
    c.cfgs = (0..4).map(|m| ModeCfg { src: m, dst: m }).collect();
    c.gaps = vec![110, 250];
    c.sounds = vec![0, 8];
    c.repeat = 6;
    c.diff = vh::gen::DiffPreset::D4;
    c.tag = "/motif-x6".into();
    out.extend(c.build());
    out
}

fn setts() -> Vec<Setting> {
    vec![Setting::nm(), Setting::bits(settings::DT | settings::HR), Setting { rate: Some(0.75), ..Setting::bits(settings::FL) }]
}

fn keymods() -> Vec<ModSpec> {
    vec![ModSpec::Bits(settings::KEY7), ModSpec::Random(Some(3.0))]
}

fn spec_of(unis: &[MapUniverse], offsets: &[u64], idx: u64) -> MapSpec {
    let ui = offsets.partition_point(|o| *o <= idx) - 1;
    unis[ui].spec(idx - offsets[ui])
}

/// Extra cases behind the grammar universes: the four fixtures, windows of 48 of their objects, and every motif of 3
/// objects over a narrow alphabet (circle / slider, two hit sounds) repeated 4 times.
fn extra_cases(thorough: bool) -> Vec<(String, rosu_pp::Beatmap)> {
    let mut v = Vec::new();
    for (path, _) in vh::gen::fixture_paths() {
        if let Ok(m) = rosu_pp::Beatmap::from_path(path) {
            let n = m.hit_objects.len();
            v.push((format!("fixture {path}"), m));
            for start in (0..n).step_by(96) {
                if let Some(w) = vh::gen::fixture_window(path, start, 48) {
                    v.push((format!("fixture {path} objects {start}..{}", start + 48), w));
                }
            }
        }
    }
    // marathon maps: a hard opening (40 notes 100 ms apart) and an easy tail of 1080 notes 400 ms apart — strain lists
    // beyond 1024 sections (how the peaks are stored is what `raw_strains` changes), one file per mode
    for mode in 0..4u8 {
        let spec = MapSpec { stream: (1080, 400), ..MapSpec::new(mode, (0..40u8).map(|i| vh::gen::Obj { kind: Kind::Circle, gap: 100, pos: PosK::Far, sound: 0, col: i % 4 }).collect()) };
        v.push((format!("marathon 40 x 100 ms + 1080 x 400 ms, mode {mode}"), spec.decode()));
    }
    let native: Vec<ModeCfg> = (0..4).map(|m| ModeCfg { src: m, dst: m }).collect();
    for mu in vh::uni::rhythm_universes(&native, 3, 3).into_iter().chain(if thorough { vh::uni::rhythm_universes_wide(&native) } else { Vec::new() }) {
        for i in 0..mu.total {
            let spec = mu.spec(i);
            v.push((spec.describe(), spec.decode()));
        }
    }
    // intervals that differ by exactly the tolerance of "same rhythm" comparisons (5 ms) and by one millisecond more / less:
    // every sequence of 5 gaps over {150, 155, 156, 160}, two colour patterns, taiko and osu!
    for mode in [1u8, 0] {
        let gaps = [150u32, 155, 156, 160];
        for code in 0..4u32.pow(5) {
            for colours in 0..2u8 {
                let mut r = code;
                let mut objs = vec![vh::gen::Obj { kind: Kind::Circle, gap: 0, pos: PosK::Far, sound: 0, col: 0 }];
                for i in 0..5 {
                    objs.push(vh::gen::Obj { kind: Kind::Circle, gap: gaps[(r % 4) as usize], pos: PosK::Far, sound: if colours == 1 && i % 2 == 0 { 8 } else { 0 }, col: 0 });
                    r /= 4;
                }
                let spec = MapSpec::new(mode, objs);
                v.push((spec.describe(), spec.decode()));
            }
        }
    }
    // long periodic rhythms (look-back windows of 64 / 128 objects): six even hits, then every motif of four gaps over
    // {100, 200, 400} ms repeated 30 times (126 objects), taiko and osu!
    for mode in [1u8, 0] {
        let gaps = [100u32, 200, 400];
        for code in 0..3u32.pow(4) {
            let g: Vec<u32> = (0..4).map(|i| gaps[((code / 3u32.pow(i)) % 3) as usize]).collect();
            for even in gaps {
                if mode == 0 && even != 200 {
                    continue;
                }
                // (colours irregular: a colour skill that only looks at colour changes must stay busy all along)
                let sound = |i: usize| if (i * i) % 7 < 3 { 8 } else { 0 };
                let mut objs: Vec<vh::gen::Obj> = (0..6).map(|i| vh::gen::Obj { kind: Kind::Circle, gap: if i == 0 { 0 } else { even }, pos: PosK::Far, sound: sound(i), col: 0 }).collect();
                for k in 0..120usize {
                    objs.push(vh::gen::Obj { kind: Kind::Circle, gap: if k == 0 { even } else { g[(k - 1) % 4] }, pos: PosK::Far, sound: sound(k + 6), col: 0 });
                }
                let spec = MapSpec::new(mode, objs);
                v.push((format!("six hits {even} ms apart + motif {g:?} x30, mode {mode}"), spec.decode()));
            }
        }
    }
    // maps that open with 3 or 4 rhythm groups of 5 notes each, spacings from {125, 250, 260, 500} ms (260 lies within the
    // 10 % that "the same interval" tolerates): what the rhythm skill remembers about earlier groups, taiko and osu!
    for mode in [1u8, 0] {
        let spacings = [125u32, 250, 260, 500];
        for groups in [3u32, 4] {
            for code in 0..4u32.pow(groups) {
                let mut objs = Vec::new();
                for g in 0..groups {
                    let sp = spacings[((code / 4u32.pow(g)) % 4) as usize];
                    for i in 0..5u32 {
                        objs.push(vh::gen::Obj { kind: Kind::Circle, gap: if g == 0 && i == 0 { 0 } else { sp }, pos: PosK::Far, sound: if (g + i) % 3 == 0 { 8 } else { 0 }, col: 0 });
                    }
                }
                let spec = MapSpec::new(mode, objs);
                v.push((format!("{groups} rhythm groups of 5 notes, spacings code {code}, mode {mode}"), spec.decode()));
            }
        }
    }
    // silences longer than 2^14 (and 2^15) strain sections between two bursts: run-length limits of a strain list
    for mode in 0..4u8 {
        for silence in [7_000_000u32, 14_000_000] {
            for sound in [0u8, 8] {
                let o = |gap: u32, i: u8| vh::gen::Obj { kind: Kind::Circle, gap, pos: PosK::Far, sound: if i % 2 == 0 { sound } else { 0 }, col: i % 3 };
                let mut objs: Vec<vh::gen::Obj> = (0..6).map(|i| o(if i == 0 { 0 } else { 110 }, i)).collect();
                objs.push(o(silence, 0));
                objs.extend((1..6).map(|i| o(110, i)));
                let spec = MapSpec::new(mode, objs);
                v.push((spec.describe(), spec.decode()));
            }
        }
    }
    // timelines of more than a day and of several days (the verdict of check_suspicion is part of the digest)
    for mode in [0u8, 3] {
        for silence in [100_000_000u32, 500_000_000] {
            let o = |gap: u32, i: u8| vh::gen::Obj { kind: Kind::Circle, gap, pos: PosK::Far, sound: 0, col: i % 3 };
            let mut objs: Vec<vh::gen::Obj> = (0..4).map(|i| o(if i == 0 { 0 } else { 110 }, i)).collect();
            objs.push(o(silence, 0));
            objs.extend((1..4).map(|i| o(110, i)));
            let spec = MapSpec::new(mode, objs);
            v.push((spec.describe(), spec.decode()));
        }
    }
    for mode in 0..4u8 {
        let alpha = if mode == 3 {
            vh::gen::Alphabet::product(&[Kind::Circle, Kind::Hold(300)], &[0, 125], &[PosK::Same], &[0], &[0, 2])
        } else {
            vh::gen::Alphabet::product(&[Kind::Circle, Kind::Slider2], &[125], &[PosK::Far], &[0, 8], &[0])
        };
        let base = alpha.count_upto(2);
        for i in base..alpha.count_upto(3) {
            let spec = MapSpec { repeat: 4, diff: vh::gen::DiffPreset::D4, ..MapSpec::new(mode, alpha.seq(i, 3)) };
            v.push((spec.describe(), spec.decode()));
        }
    }
    v
}

fn main() {
    let args: Vec<String> = std::env::args().collect();
    let tier_arg = args.iter().position(|a| a == "--tier").and_then(|p| args.get(p + 1)).map_or("quick", String::as_str);
    let tier = if tier_arg == "thorough" || std::env::var("VERIF_TIER").as_deref() == Ok("thorough") && tier_arg != "quick" { Tier::Thorough } else { Tier::Quick };

    // ---- emit mode: print "idx digest" for a slice
    if let Some(p) = args.iter().position(|a| a == "--emit") {
        let a: u64 = args[p + 1].parse().expect("lo");
        let b: u64 = args[p + 2].parse().expect("hi");
        let unis = universes(tier);
        let mut offsets = Vec::new();
        let mut total = 0;
        for u in &unis {
            offsets.push(total);
            total += u.total;
        }
        let out = std::io::stdout();
        let mut o = out.lock();
        let extras = extra_cases(tier == Tier::Thorough);
        for idx in a..b.min(total + extras.len() as u64) {
            let map = if idx < total { spec_of(&unis, &offsets, idx).decode() } else { extras[(idx - total) as usize].1.clone() };
            let d = std::panic::catch_unwind(|| battery::run(&map, &setts(), &keymods(), 10_000, &|| {}, true)).unwrap_or(0xdead_dead_dead_dead);
            let _ = writeln!(o, "{idx} {d}");
        }
        return;
    }

    let ctx = Ctx::from_env_caps("C10", 50, 1500);
    ctx.rule("case = grammar map (dense universe: N<=2/3 objects, gaps {0,150,1000}; long-gap universe: N<=3/4 objects, gaps {150, 7 s, 700 s} so that strains decay through the subnormal range to exact zero, first object before time zero; extra cases: the fixtures and windows of them, rhythm and 3-object motif universes, every opening of 3 / 4 rhythm groups of 5 notes over 4 spacings, two bursts separated by a silence of 7*10^6 / 1.4*10^7 ms = more than 2^14 / 2^15 strain sections, and by 10^8 / 5*10^8 ms = more than one / five days); per case the whole battery (bpm, check_suspicion verdict, difficulty, full strain vectors, gradual walks, performance, conversions to every reachable mode, 3 settings + key mods) is digested by four builds of this checker that differ only in rosu-pp's cargo features; oracle = the four digests are equal for every case; non-trivial = every case (each compares four independent executions)");
    ctx.assume("the four binaries are built from the same working tree by bin/pre_c10 (target/feat-*/release/c10)");

    let root = PathBuf::from(std::env::var("VERIF_ROOT").unwrap_or_else(|_| "/verif".into()));
    let exes: Vec<PathBuf> = VARIANTS.iter().map(|v| root.join(format!("target/feat-{v}/release/c10"))).collect();
    for e in &exes {
        if !e.exists() {
            ctx.machinery_error(format!("variant binary {} missing (run through bin/check C10)", e.display()));
        }
    }
    let unis = universes(ctx.tier);
    let mut offsets = Vec::new();
    let mut total = 0u64;
    for u in &unis {
        offsets.push(total);
        total += u.total;
    }
    let extras = extra_cases(ctx.tier == Tier::Thorough);
    let grammar_total = total;
    let total = total + extras.len() as u64;
    let describe = |idx: u64| -> String {
        if idx < grammar_total {
            let spec = spec_of(&unis, &offsets, idx);
            format!("spec={}\n--- .osu ---\n{}", spec.describe(), spec.text())
        } else {
            format!("extra case: {}", extras[(idx - grammar_total) as usize].0)
        }
    };
    let (lo, hi) = match &ctx.replay {
        Some((_, i)) => (*i, *i + 1),
        None => (0, total),
    };
    let slice = 64u64;
    let ext_slots = (total - grammar_total).div_ceil(slice) * slice;
    let next = AtomicU64::new(lo);
    let done = AtomicU64::new(0);
    let capped = std::sync::atomic::AtomicBool::new(false);
    let workers = (ctx.threads / 4).max(1);
    std::thread::scope(|s| {
        for _ in 0..workers {
            s.spawn(|| loop {
                if ctx.past_deadline() {
                    capped.store(true, Ordering::Relaxed);
                    break;
                }
                // the hand-picked extra cases go first (they sit behind the grammar universes in the index space): a wall cap
                // then cuts the tail of the largest grammar universe, never a whole class of inputs
                let v = next.fetch_add(slice, Ordering::Relaxed);
                let (a, b) = if ctx.replay.is_some() {
                    if v >= hi {
                        break;
                    }
                    (v, (v + slice).min(hi))
                } else if v < ext_slots {
                    let a = grammar_total + v;
                    if a >= total {
                        continue;
                    }
                    (a, (a + slice).min(total))
                } else {
                    let a = v - ext_slots;
                    if a >= grammar_total {
                        break;
                    }
                    (a, (a + slice).min(grammar_total))
                };
                // run the four variants concurrently on this slice
                let outs: Vec<Option<Vec<(u64, u64)>>> = std::thread::scope(|s2| {
                    let hs: Vec<_> = exes
                        .iter()
                        .map(|e| {
                            s2.spawn(move || {
                                let o = Command::new(e).args(["--tier", ctx.tier.name(), "--emit", &a.to_string(), &b.to_string()]).output().ok()?;
                                if !o.status.success() {
                                    return None;
                                }
                                let t = String::from_utf8_lossy(&o.stdout);
                                Some(t.lines().filter_map(|l| { let mut f = l.split(' '); Some((f.next()?.parse().ok()?, f.next()?.parse().ok()?)) }).collect())
                            })
                        })
                        .collect();
                    hs.into_iter().map(|h| h.join().ok().flatten()).collect()
                });
                if outs.iter().any(|o| o.as_ref().is_none_or(|v| v.len() as u64 != b - a)) {
                    ctx.machinery_error(format!("a feature variant did not deliver digests for cases [{a},{b})"));
                    return;
                }
                let outs: Vec<Vec<(u64, u64)>> = outs.into_iter().flatten().collect();
                for k in 0..(b - a) as usize {
                    let (idx, d0) = outs[0][k];
                    for (vi, o) in outs.iter().enumerate().skip(1) {
                        if o[k] != (idx, d0) {
                            ctx.add_violation(Violation {
                                class: format!("differs_{}", VARIANTS[vi].replace('+', "_")),
                                universe: "feature-variants".into(),
                                idx,
                                msg: format!("digest of the default build {d0:x} != digest {:x} of the build with features [{}]\n{}", o[k].1, VARIANTS[vi], describe(idx)),
                            });
                            break;
                        }
                    }
                    if d0 == 0xdead_dead_dead_dead {
                        ctx.add_violation(Violation { class: "panic".into(), universe: "feature-variants".into(), idx, msg: "battery panicked in the default build".into() });
                    }
                }
                done.fetch_add(b - a, Ordering::Relaxed);
                ctx.add_counts(b - a, 4 * (b - a), 4 * (b - a), b - a);
                if a == if ctx.replay.is_some() { lo } else { 0 } {
                    let mut o = J::obj();
                    o.set("universe", J::s("feature-variants"));
                    o.set("index", J::i(a));
                    o.set("map", J::s(describe(a).lines().next().unwrap_or("").to_owned()));
                    o.set("digests", J::s(format!("{:x?}", outs.iter().map(|v| v[0].1).collect::<Vec<_>>())));
                    ctx.add_sample(o);
                }
            });
        }
    });
    ctx.note_universe("feature-variants", UniverseStat { total, done: done.load(Ordering::Relaxed), capped: capped.load(Ordering::Relaxed), note: format!("4 builds x {} grammar universes + {} extra cases (fixtures, fixture windows, 3-object motifs x4): {}", unis.len(), extras.len(), unis.iter().map(|u| u.name.clone()).collect::<Vec<_>>().join(", ")) });
    let mut o = J::obj();
    o.set("universe", J::s("feature-variants"));
    o.set("index", J::i(total - 1));
    o.set("map", J::s(describe(total - 1).lines().next().unwrap_or("").to_owned()));
    ctx.add_sample(o);
    ctx.finish();
}
