//! Boring reference helpers shared by several checks.

use rosu_pp::{model::hit_object::HitObjectKind, Beatmap};

/// Count (circles, sliders, spinners, holds) among the first `n` objects.
pub fn kind_counts(map: &Beatmap, n: usize) -> (u32, u32, u32, u32) {
    let mut c = (0, 0, 0, 0);
    for h in map.hit_objects.iter().take(n) {
        match h.kind {
            HitObjectKind::Circle => c.0 += 1,
            HitObjectKind::Slider(_) => c.1 += 1,
            HitObjectKind::Spinner(_) => c.2 += 1,
            HitObjectKind::Hold(_) => c.3 += 1,
        }
    }
    c
}
