//! vh — verification harness core for rosu-pp.
//!
//! Everything here drives the *real* rosu-pp implementation; the only models
//! are boring reference oracles.

pub mod api;
pub mod baton;
pub mod battery;
pub mod cmp;
pub mod ctx;
pub mod explore;
pub mod gen;
pub mod guard;
pub mod json;
pub mod refs;
pub mod settings;
pub mod uni;
pub mod wf;

pub use ctx::{Ctx, Local, Tier};
