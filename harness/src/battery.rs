//! The "whole public battery" executed on one map: every public calculation that must return
//! normally (C05), also reused as the job body of C01 / C10 / C20 (it returns a digest of all results).

use rosu_pp::{
    any::ScoreState,
    model::mode::GameMode,
    Beatmap, Difficulty, GameMods, Performance,
};

use crate::{
    api,
    cmp::{canon, digest},
    gen,
    settings::{self, ModSpec, Setting},
};

pub fn settings_menu(rich: bool) -> Vec<Setting> {
    let mut v = vec![
        Setting::nm(),
        Setting::bits(settings::HR | settings::DT),
        Setting::bits(settings::EZ | settings::HT | settings::FL),
        Setting { rate: Some(100.0), ..Setting::nm() },
        Setting { rate: Some(0.01), ..Setting::nm() },
        Setting { ar: Some((-20.0, false)), cs: Some((20.0, false)), od: Some((20.0, true)), hp: Some((-20.0, true)), ..Setting::bits(settings::HD) },
        // lazer Classic with its slider-head setting switched off: the one osu! configuration in which the mod is present
        // but scores are judged like lazer scores
        Setting::mods(ModSpec::Classic(Some(false))),
    ];
    if rich {
        v.push(Setting { ar: Some((20.0, true)), cs: Some((-20.0, true)), od: Some((-20.0, false)), hp: Some((20.0, false)), lazer: Some(false), ..Setting::bits(settings::RX) });
        v.push(Setting::mods(ModSpec::Classic(None)));
        v.push(Setting { lazer: Some(false), ..Setting::mods(ModSpec::Classic(Some(true))) });
        v.push(Setting { hr_offsets: Some(true), ..Setting::bits(settings::AP | settings::SO | settings::TD) });
    }
    v
}

/// Largest absolute time (start or end) of any hit object.
pub fn max_time(map: &Beatmap) -> f64 {
    use rosu_pp::model::hit_object::HitObjectKind;
    map.hit_objects
        .iter()
        .map(|h| {
            let end = match &h.kind {
                HitObjectKind::Spinner(s) => h.start_time + s.duration,
                HitObjectKind::Hold(hn) => h.start_time + hn.duration,
                _ => h.start_time,
            };
            h.start_time.abs().max(end.abs())
        })
        .fold(0.0, f64::max)
}

/// The settings crossed with a map: the work of one call is proportional to (timeline length / clock rate / 400 ms),
/// so the slowest clock rate (0.01) is crossed only with timelines up to 10^6 ms and very long timelines (> 10^8 ms)
/// get the three cheapest settings.
pub fn settings_for(map: &Beatmap, rich: bool) -> Vec<Setting> {
    let t = max_time(map);
    let all = settings_menu(rich);
    if t > 1e8 {
        vec![Setting { rate: Some(2.0), ..Setting::bits(settings::HR) }]
    } else if t > 1e6 {
        all.into_iter().filter(|s| s.rate.is_none_or(|r| r >= 0.5)).collect()
    } else {
        all
    }
}

/// Target modes reachable from a map.
pub fn targets(map: &Beatmap) -> Vec<u8> {
    if map.mode == GameMode::Osu && !map.is_convert {
        vec![0, 1, 2, 3]
    } else {
        vec![gen::mode_num(map.mode)]
    }
}

/// Run everything; returns a digest over all results (canonical dump). `steps` bounds gradual walks.
pub fn run(map: &Beatmap, setts: &[Setting], key_mods: &[ModSpec], max_steps: usize, tick: &dyn Fn(), digesting: bool) -> u64 {
    // very long timelines: every call costs tens of milliseconds, run the slim battery (one call of each kind)
    let slim = max_time(map) > 1e8;
    let mut acc = String::new();
    // evaluate always, render only when a digest is wanted (rendering long strain vectors dominates otherwise)
    macro_rules! put {
        ($fmt:literal, $($e:expr),+) => {{
            let vals = ($($e,)+);
            if digesting {
                acc.push_str(&canon(&format!("{:?}", vals)));
                acc.push('\n');
            }
            std::hint::black_box(&vals);
            tick();
        }};
    }
    put!("bpm={:?}", map.bpm());
    put!("suspicion={:?}", map.check_suspicion().map_err(|e| e.to_string()));
    put!("breaks={:?}", map.total_break_time());
    let n = map.hit_objects.len() as u32;
    for dst in targets(map) {
        let mode = gen::game_mode(dst);
        let mut all: Vec<Setting> = setts.to_vec();
        if dst == 3 && !slim {
            for k in key_mods {
                all.push(Setting::mods(k.clone()));
            }
        }
        for s in &all {
            let d: Difficulty = s.difficulty(mode);
            let mods: GameMods = d.clone().inspect().mods;
            // conversions: by value, by reference, in place
            let conv = map.clone().convert(mode, &mods).expect("reachable target");
            let _ = map.convert_ref(mode, &mods).map(|c| c.hit_objects.len());
            let mut m2 = map.clone();
            let _ = m2.convert_mut(mode, &mods);
            put!("conv={} {}", conv.hit_objects.len(), conv.hit_sounds.len());
            put!("attrs={:?}", conv.attributes().difficulty(&d).build());
            let full = api::difficulty(&d, map, dst).expect("reachable target");
            put!("{:?}", &full);
            put!("{:?}", api::strains(&d, map, dst).expect("reachable target"));
            if !slim {
                put!("{:?}", api::difficulty(&d.clone().passed_objects(n / 2), map, dst).expect("reachable target"));
            }
            // gradual difficulty: next to exhaustion, and nth jumps
            let mut g = api::gradual(d.clone(), map, dst).expect("reachable target");
            let mut steps = 0;
            let mut last = None;
            while let Some(v) = g.next() {
                tick();
                last = Some(v);
                steps += 1;
                if steps >= max_steps {
                    break;
                }
            }
            put!("{:?}", steps, &last);
            if slim {
                let mut gp = api::gradual_perf(d.clone(), map, dst).expect("reachable target");
                put!("{:?}", gp.last(ScoreState::new()));
                put!("{:?}", Performance::new(&conv).difficulty(d.clone()).accuracy(50.0).misses(3 * n).calculate());
                continue;
            }
            let mut g = api::gradual(d.clone(), map, dst).expect("reachable target");
            let mut steps = 0;
            while let Some(v) = g.nth(3) {
                tick();
                steps += 1;
                if steps >= max_steps {
                    put!("{:?}", &v);
                    break;
                }
            }
            let _ = g.nth(usize::MAX);
            let _ = g.next();
            // gradual performance
            let st = ScoreState { max_combo: 3 * n, n300: n, n100: n, n50: n, misses: 1, n_geki: 1, n_katu: 1, osu_large_tick_hits: n, osu_small_tick_hits: n, slider_end_hits: n };
            let mut gp = api::gradual_perf(d.clone(), map, dst).expect("reachable target");
            put!("{:?}", gp.next(st.clone()));
            put!("{:?}", gp.nth(st.clone(), 1));
            put!("{:?}", gp.last(st.clone()));
            put!("{:?}", gp.next(ScoreState::new()));
            // performance with score specifications whose counts reach 3x the object count
            let base = || Performance::new(&conv).difficulty(d.clone());
            put!("{:?}", base().calculate());
            put!("{:?}", base().accuracy(50.0).misses(3 * n).calculate());
            put!("{:?}", base().n100(3 * n).n50(1).combo(3 * n).calculate());
            put!("{:?}", base().state(st.clone()).calculate());
            put!("{:?}", base().accuracy(0.0).n300(n).n_katu(3 * n).n_geki(n).passed_objects(n / 2 + 1).calculate());
            put!("{:?}", base().passed_objects(0).calculate());
            let mut p = base().accuracy(97.7).misses(1);
            put!("{:?}", p.generate_state());
            // attributes path
            put!("{:?}", Performance::new(full.clone()).difficulty(d.clone()).accuracy(88.0).calculate());
        }
    }
    digest(&acc)
}

/// Domain test for C05: decodable, not suspicious, bounded slider work.
pub fn in_domain(map: &Beatmap) -> bool {
    use rosu_pp::model::hit_object::HitObjectKind;
    if map.check_suspicion().is_err() {
        return false;
    }
    if map.hit_objects.len() > 400 {
        return false;
    }
    map.hit_objects.iter().all(|h| match &h.kind {
        HitObjectKind::Slider(s) => s.repeats <= 100 && s.expected_dist.unwrap_or(0.0) <= 20_000.0,
        _ => true,
    })
}

/// Conversion-focused battery for longer maps: every conversion entry point, difficulty and a gradual walk for every
/// reachable mode, mania under each of the given key mods. Returns a digest.
pub fn run_conversions(map: &Beatmap, key_mods: &[ModSpec], tick: &dyn Fn()) -> u64 {
    let mut acc = 0u64;
    for dst in targets(map) {
        let mode = gen::game_mode(dst);
        let mods_list: Vec<ModSpec> = if dst == 3 { std::iter::once(ModSpec::Bits(0)).chain(key_mods.iter().cloned()).collect() } else { vec![ModSpec::Bits(0), ModSpec::Bits(settings::HR)] };
        for m in &mods_list {
            let mods = m.build(mode);
            let conv = map.clone().convert(mode, &mods).expect("reachable target");
            tick();
            let d = Difficulty::new().mods(mods);
            let a = api::difficulty(&d, map, dst).expect("reachable target");
            tick();
            let n = api::gradual(d.clone(), map, dst).expect("reachable target").count();
            tick();
            let p = Performance::new(&conv).difficulty(d).accuracy(96.0).calculate();
            tick();
            acc = acc.wrapping_mul(31).wrapping_add(digest(&canon(&format!("{} {a:?} {n} {p:?}", conv.hit_objects.len()))));
        }
    }
    acc
}
