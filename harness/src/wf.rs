//! Well-formedness oracle for decoded beatmaps (C06) — everything the property lists.

use rosu_pp::{
    model::{hit_object::HitObjectKind, mode::GameMode},
    Beatmap,
};

fn strictly(times: &[f64]) -> bool {
    times.windows(2).all(|w| w[0].total_cmp(&w[1]).is_lt() && w[0] < w[1] || w[0].total_cmp(&w[1]).is_lt() && w[0] == w[1] && false)
}

/// `None` if the map is well-formed, otherwise what is wrong.
pub fn check(map: &Beatmap) -> Option<String> {
    let fin = |name: &str, v: f64| if v.is_finite() { None } else { Some(format!("{name} is {v}")) };
    let rng = |name: &str, v: f64, lo: f64, hi: f64| if (lo..=hi).contains(&v) { None } else { Some(format!("{name} = {v} outside [{lo}, {hi}]")) };

    if map.hit_sounds.len() != map.hit_objects.len() {
        return Some(format!("{} hit objects but {} hit sounds", map.hit_objects.len(), map.hit_sounds.len()));
    }
    for w in map.hit_objects.windows(2) {
        if !(w[0].start_time <= w[1].start_time) {
            return Some(format!("hit objects out of order: {} before {}", w[0].start_time, w[1].start_time));
        }
    }
    let cs_range = if map.mode == GameMode::Mania { (1.0, 18.0) } else { (0.0, 10.0) };
    for r in [
        rng("ar", map.ar.into(), 0.0, 10.0),
        rng("od", map.od.into(), 0.0, 10.0),
        rng("hp", map.hp.into(), 0.0, 10.0),
        rng("cs", map.cs.into(), cs_range.0, cs_range.1),
        rng("slider_multiplier", map.slider_multiplier, 0.4, 3.6),
        rng("slider_tick_rate", map.slider_tick_rate, 0.5, 8.0),
        fin("stack_leniency", map.stack_leniency.into()),
    ] {
        if r.is_some() {
            return r;
        }
    }
    const MAXT: f64 = 2_147_483_648.0;
    for h in &map.hit_objects {
        for r in [rng("start_time", h.start_time, -MAXT, MAXT), rng("pos.x", h.pos.x.into(), -131_072.0, 131_072.0), rng("pos.y", h.pos.y.into(), -131_072.0, 131_072.0)] {
            if r.is_some() {
                return r;
            }
        }
        match &h.kind {
            HitObjectKind::Circle => {}
            HitObjectKind::Slider(s) => {
                if s.repeats > 9000 {
                    return Some(format!("slider with {} repeats", s.repeats));
                }
                if let Some(d) = s.expected_dist {
                    if !d.is_finite() || d < 0.0 || d > 131_072.0 {
                        return Some(format!("slider expected_dist {d}"));
                    }
                }
                if s.node_sounds.len() != s.repeats + 2 {
                    return Some(format!("slider with {} repeats has {} node sounds", s.repeats, s.node_sounds.len()));
                }
                for p in s.control_points.iter() {
                    if !p.pos.x.is_finite() || !p.pos.y.is_finite() {
                        return Some("non-finite slider control point".into());
                    }
                }
            }
            HitObjectKind::Spinner(s) => {
                if !(s.duration >= 0.0) || !s.duration.is_finite() {
                    return Some(format!("spinner duration {}", s.duration));
                }
            }
            HitObjectKind::Hold(hn) => {
                if !(hn.duration >= 0.0) || !hn.duration.is_finite() {
                    return Some(format!("hold duration {}", hn.duration));
                }
            }
        }
    }
    let tt: Vec<f64> = map.timing_points.iter().map(|t| t.time).collect();
    let dt: Vec<f64> = map.difficulty_points.iter().map(|t| t.time).collect();
    let et: Vec<f64> = map.effect_points.iter().map(|t| t.time).collect();
    for (name, v) in [("timing", &tt), ("difficulty", &dt), ("effect", &et)] {
        if v.iter().any(|t| !t.is_finite()) {
            return Some(format!("{name} point with non-finite time"));
        }
        // strictly increasing under total_cmp, and numerically non-decreasing
        if !v.windows(2).all(|w| w[0].total_cmp(&w[1]).is_lt() && w[0] <= w[1]) {
            return Some(format!("{name} points not strictly ordered: {v:?}"));
        }
    }
    let _ = strictly;
    for t in &map.timing_points {
        if let r @ Some(_) = rng("beat_len", t.beat_len, 6.0, 60_000.0) {
            return r;
        }
    }
    for d in &map.difficulty_points {
        for r in [rng("slider_velocity", d.slider_velocity, 0.1, 10.0), rng("bpm_multiplier", d.bpm_multiplier, 0.1, 100.0)] {
            if r.is_some() {
                return r;
            }
        }
    }
    for e in &map.effect_points {
        if let r @ Some(_) = rng("scroll_speed", e.scroll_speed, 0.01, 10.0) {
            return r;
        }
    }
    for b in &map.breaks {
        if !b.start_time.is_finite() || !b.end_time.is_finite() || b.end_time < b.start_time {
            return Some(format!("break {} .. {}", b.start_time, b.end_time));
        }
    }
    None
}
