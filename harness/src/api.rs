//! Thin dispatch helpers over rosu-pp's public API (mode chosen at run time).

use rosu_pp::{
    any::{DifficultyAttributes, PerformanceAttributes, Strains},
    catch::Catch,
    mania::Mania,
    model::mode::ConvertError,
    osu::Osu,
    taiko::Taiko,
    Beatmap, Difficulty, GradualDifficulty, GradualPerformance,
};

use crate::gen::game_mode;

pub fn difficulty(d: &Difficulty, map: &Beatmap, dst: u8) -> Result<DifficultyAttributes, ConvertError> {
    Ok(match dst {
        0 => DifficultyAttributes::Osu(d.calculate_for_mode::<Osu>(map)?),
        1 => DifficultyAttributes::Taiko(d.calculate_for_mode::<Taiko>(map)?),
        2 => DifficultyAttributes::Catch(d.calculate_for_mode::<Catch>(map)?),
        _ => DifficultyAttributes::Mania(d.calculate_for_mode::<Mania>(map)?),
    })
}

pub fn strains(d: &Difficulty, map: &Beatmap, dst: u8) -> Result<Strains, ConvertError> {
    Ok(match dst {
        0 => Strains::Osu(d.strains_for_mode::<Osu>(map)?),
        1 => Strains::Taiko(d.strains_for_mode::<Taiko>(map)?),
        2 => Strains::Catch(d.strains_for_mode::<Catch>(map)?),
        _ => Strains::Mania(d.strains_for_mode::<Mania>(map)?),
    })
}

pub fn gradual(d: Difficulty, map: &Beatmap, dst: u8) -> Result<GradualDifficulty, ConvertError> {
    GradualDifficulty::new_with_mode(d, map, game_mode(dst))
}

pub fn gradual_perf(d: Difficulty, map: &Beatmap, dst: u8) -> Result<GradualPerformance, ConvertError> {
    GradualPerformance::new_with_mode(d, map, game_mode(dst))
}

pub fn stars(a: &DifficultyAttributes) -> f64 {
    a.stars()
}

pub fn pp(a: &PerformanceAttributes) -> f64 {
    a.pp()
}
