//! The shape grammar (E1): finite alphabets of `.osu` *texts*. Every map handed to rosu-pp goes
//! through the real decoder.

use std::fmt::Write;

use rosu_pp::Beatmap;

/// Object kinds of the alphabet.
#[derive(Copy, Clone, Debug, PartialEq, Eq, Hash)]
pub enum Kind {
    Circle,
    /// 70 px, 1 span
    Slider1,
    /// 70 px, 2 spans
    Slider2,
    /// 35 px, 4 spans ("buzz")
    Buzz,
    /// long slider 280 px, 1 span (ticks)
    SliderLong,
    /// 140 px, 5 spans (500 ms per span at the default timing / velocity)
    Slider5,
    /// 10 px, 1 span: travel time of a few milliseconds
    SliderTiny,
    /// a path without length (control point on the head), 4 repeats
    SliderZeroRep,
    /// perfect-circle curve through three points, 100 px, 1 span
    SliderPerfect,
    /// straight slider of the given length in px, 1 span
    SliderLen(u16),
    /// spinner of the given length in ms
    Spinner(u32),
    /// a spinner whose end time lies the given number of ms *before* its start (files carry any end time)
    SpinnerBack(u16),
    /// hold note (type 128) of the given length in ms
    Hold(u32),
}

#[derive(Copy, Clone, Debug, PartialEq, Eq, Hash)]
pub enum PosK {
    Same,
    Near,
    Far,
}

#[derive(Copy, Clone, Debug, PartialEq, Eq, Hash)]
pub struct Obj {
    pub kind: Kind,
    /// gap to the previous object's *start* (ms)
    pub gap: u32,
    pub pos: PosK,
    /// hit sound bits
    pub sound: u8,
    /// mania column selector: 0 = first, 1 = same as previous, 2 = last
    pub col: u8,
}

#[derive(Copy, Clone, Debug, PartialEq, Eq, Hash)]
pub enum DiffPreset {
    /// HP5 CS4 OD7 AR8 SM1.4 TR1
    D0,
    /// all 0, SM0.4 TR0.5
    D1,
    /// all 10, SM3.6 TR8
    D2,
    /// HP5 CS4 OD7 AR8 SM1.4 TR2 (more ticks)
    D3,
    /// HP5 CS4 OD8 AR9
    D4,
    /// HP6 CS3 OD8 AR9 SM1.0
    D5,
    /// HP4 CS5 OD5 AR7
    D6,
    /// HP3 CS4 OD3 AR3 SM2.0
    D7,
    /// HP8 CS4.5 OD9 AR9.5
    D8,
}

#[derive(Copy, Clone, Debug, PartialEq, Eq, Hash)]
pub enum Timing {
    /// one 500 ms line
    T0,
    /// T0 + inherited x2 velocity at 1000
    T1,
    /// two uninherited lines whose durations tie (500 / 250)
    T2,
    /// kiai from the start
    T3,
    /// beat length at the clamp (6)
    T4,
    /// inherited NaN line
    T5,
    /// 500 ms line + second uninherited 300 ms line at 1200
    T6,
    /// kiai on + velocity x2 at 1000, kiai off + velocity x1 at 1150, kiai on + velocity x0.5 at 1300 (effect points that
    /// coincide with object starts when the first object starts at 1000 and gaps are 150)
    T7,
    /// beat length at the upper clamp (60 000 ms = 1 BPM): a 70 px slider lasts 30 s
    T8,
}

#[derive(Clone, Debug, PartialEq, Eq, Hash)]
pub struct MapSpec {
    pub version: u32,
    /// 0 osu, 1 taiko, 2 catch, 3 mania
    pub mode: u8,
    pub diff: DiffPreset,
    /// mania key count (CircleSize for mode 3)
    pub keys: u8,
    pub timing: Timing,
    pub first_start: i32,
    pub objs: Vec<Obj>,
    /// a stream of `.0` circles, `.1` ms apart, appended 400 ms after the last object (dense, longer maps)
    pub stream: (u32, u32),
    /// shifts the starting position of the objects: (100 + 37 j mod 300, 100 + 23 j mod 200)
    pub jitter: u8,
    /// the object list is a motif that is repeated this many times (0 and 1 = once): long periodic maps
    pub repeat: u32,
    /// stream style bits: 1 = the stream starts 100 ms after the last object's *start* (overlapping a long slider /
    /// spinner) instead of 400 ms after its end; 2 = every 4th stream note carries a finish, every 4th+2 a clap;
    /// 4 = the stream is stacked on one spot
    pub stream_style: u8,
    /// tenth of a millisecond added to every start time (1000 becomes 1000.6): fractional times are legal
    pub frac_tenths: u8,
    /// tenths added to the mania CircleSize (a key count of 4.5 is decodable; calculators round it)
    pub cs_tenths: u8,
}

/// Gaps >= END_REL are measured from the previous object's *end*: gap - END_REL ms after it.
pub const END_REL: u32 = 1_000_000;

impl MapSpec {
    pub fn new(mode: u8, objs: Vec<Obj>) -> Self {
        Self {
            version: 14,
            mode,
            diff: DiffPreset::D0,
            keys: 4,
            timing: Timing::T0,
            first_start: 1000,
            objs,
            stream: (0, 0),
            jitter: 0,
            repeat: 1,
            stream_style: 0,
            cs_tenths: 0,
            frac_tenths: 0,
        }
    }

    pub fn text(&self) -> String {
        let mut s = String::with_capacity(512);
        let _ = writeln!(s, "osu file format v{}", self.version);
        let _ = writeln!(s, "\n[General]\nStackLeniency: 0.7\nMode: {}", self.mode);
        let (hp, cs, od, ar, sm, tr) = match self.diff {
            DiffPreset::D0 => (5.0, 4.0, 7.0, 8.0, 1.4, 1.0),
            DiffPreset::D1 => (0.0, 0.0, 0.0, 0.0, 0.4, 0.5),
            DiffPreset::D2 => (10.0, 10.0, 10.0, 10.0, 3.6, 8.0),
            DiffPreset::D3 => (5.0, 4.0, 7.0, 8.0, 1.4, 2.0),
            DiffPreset::D4 => (5.0, 4.0, 8.0, 9.0, 1.4, 1.0),
            DiffPreset::D5 => (6.0, 3.0, 8.0, 9.0, 1.0, 1.0),
            DiffPreset::D6 => (4.0, 5.0, 5.0, 7.0, 1.4, 1.0),
            DiffPreset::D7 => (3.0, 4.0, 3.0, 3.0, 2.0, 1.0),
            DiffPreset::D8 => (8.0, 4.5, 9.0, 9.5, 1.4, 1.0),
        };
        let cs = if self.mode == 3 { f64::from(self.keys) + f64::from(self.cs_tenths) / 10.0 } else { cs };
        let _ = writeln!(
            s,
            "\n[Difficulty]\nHPDrainRate:{hp}\nCircleSize:{cs}\nOverallDifficulty:{od}\nApproachRate:{ar}\nSliderMultiplier:{sm}\nSliderTickRate:{tr}"
        );
        s.push_str("\n[TimingPoints]\n");
        match self.timing {
            Timing::T0 => s.push_str("0,500,4,2,0,60,1,0\n"),
            Timing::T1 => s.push_str("0,500,4,2,0,60,1,0\n1000,-50,4,2,0,60,0,0\n"),
            Timing::T2 => s.push_str("0,500,4,2,0,60,1,0\n2000,250,4,2,0,60,1,0\n"),
            Timing::T3 => s.push_str("0,500,4,2,0,60,1,1\n"),
            Timing::T4 => s.push_str("0,6,4,2,0,60,1,0\n"),
            Timing::T5 => s.push_str("0,500,4,2,0,60,1,0\n500,NaN,4,2,0,60,0,0\n"),
            Timing::T6 => s.push_str("0,500,4,2,0,60,1,0\n1200,300,4,2,0,60,1,0\n"),
            Timing::T7 => s.push_str("0,500,4,2,0,60,1,0\n1000,-50,4,2,0,60,0,1\n1150,-100,4,2,0,60,0,0\n1300,-200,4,2,0,60,0,1\n"),
            Timing::T8 => s.push_str("0,60000,4,2,0,60,1,0\n"),
        }
        s.push_str("\n[HitObjects]\n");
        let mut t = i64::from(self.first_start);
        let mut prev_end = t;
        // px per ms at the base timing (500 ms beats; T4 uses 6 ms beats) and velocity 1
        let px_per_ms = 100.0 * sm / match self.timing { Timing::T4 => 6.0, Timing::T8 => 60000.0, _ => 500.0 };
        let (mut x, mut y) = (100 + (37 * i32::from(self.jitter)) % 300, 100 + (23 * i32::from(self.jitter)) % 200);
        let mut col: u32 = 0;
        let mut frac_prev_x: Option<i32> = None;
        let keys = u32::from(self.keys.max(1));
        let reps = self.repeat.max(1) as usize;
        for (i, o) in self.objs.iter().cycle().take(self.objs.len() * reps).enumerate() {
            if i > 0 {
                if o.gap >= END_REL {
                    t = prev_end + i64::from(o.gap - END_REL);
                } else {
                    t += i64::from(o.gap);
                }
            }
            let slider_end = |spans: f64, px: f64| t + (spans * px / px_per_ms).round() as i64;
            prev_end = match o.kind {
                Kind::Circle => t,
                Kind::Slider1 => slider_end(1.0, 70.0),
                Kind::Slider2 => slider_end(2.0, 70.0),
                Kind::Buzz => slider_end(4.0, 35.0),
                Kind::SliderLong => slider_end(1.0, 280.0),
                Kind::Slider5 => slider_end(5.0, 140.0),
                Kind::SliderTiny => slider_end(1.0, 10.0),
                Kind::SliderZeroRep => t,
                Kind::SliderPerfect => slider_end(1.0, 100.0),
                Kind::SliderLen(px) => slider_end(1.0, f64::from(px)),
                Kind::Spinner(len) | Kind::Hold(len) => t + i64::from(len),
                Kind::SpinnerBack(_) => t,
            };
            match o.pos {
                PosK::Same => {}
                PosK::Near => {
                    x += 3;
                }
                PosK::Far => {
                    x = if x > 256 { x - 120 } else { x + 120 };
                    y = if y > 192 { y - 50 } else { y + 50 };
                }
            }
            if self.mode == 3 {
                col = match o.col {
                    0 => 0,
                    1 => col,
                    _ => keys - 1,
                };
                x = ((f64::from(col) + 0.5) * 512.0 / f64::from(keys)).floor() as i32;
                y = 192;
                // fractional key count: the three selectors become two positions that share a column under `keys` columns
                // and straddle the first column boundary under `keys + 1` (and "same as before")
                if self.cs_tenths != 0 {
                    let b = 512.0 / f64::from(keys + 1);
                    x = match o.col {
                        0 => b.floor() as i32 - 2,
                        1 => frac_prev_x.unwrap_or(b.floor() as i32 - 2),
                        _ => b.ceil() as i32 + 6,
                    };
                    frac_prev_x = Some(x);
                }
            }
            let hs = o.sound;
            let ts = if self.frac_tenths == 0 { t.to_string() } else { format!("{t}.{}", self.frac_tenths) };
            // (positions too: the editor writes fractional coordinates after rotating or scaling a selection)
            let (xs, ys) = if self.frac_tenths == 0 { (x.to_string(), y.to_string()) } else { (format!("{x}.{}", self.frac_tenths), format!("{y}.{}", self.frac_tenths)) };
            match o.kind {
                Kind::Circle => {
                    let _ = writeln!(s, "{xs},{ys},{ts},1,{hs},0:0:0:0:");
                }
                Kind::Slider1 => {
                    let _ = writeln!(s, "{xs},{ys},{ts},2,{hs},L|{}:{y},1,70", x + 70);
                }
                Kind::Slider2 => {
                    let _ = writeln!(s, "{xs},{ys},{ts},2,{hs},L|{}:{y},2,70", x + 70);
                }
                Kind::Buzz => {
                    let _ = writeln!(s, "{xs},{ys},{ts},2,{hs},L|{}:{y},4,35", x + 35);
                }
                Kind::SliderLong => {
                    let _ = writeln!(s, "{xs},{ys},{ts},2,{hs},B|{}:{}|{}:{y},1,280", x + 140, y + 40, x + 280);
                }
                Kind::Slider5 => {
                    let _ = writeln!(s, "{xs},{ys},{ts},2,{hs},L|{}:{y},5,140", x + 140);
                }
                Kind::SliderTiny => {
                    let _ = writeln!(s, "{xs},{ys},{ts},2,{hs},L|{}:{y},1,10", x + 10);
                }
                Kind::SliderZeroRep => {
                    let _ = writeln!(s, "{xs},{ys},{ts},2,{hs},L|{x}:{y},4,0");
                }
                Kind::SliderLen(px) => {
                    let _ = writeln!(s, "{xs},{ys},{ts},2,{hs},L|{}:{y},1,{px}", x + i32::from(px));
                }
                Kind::SliderPerfect => {
                    let _ = writeln!(s, "{xs},{ys},{ts},2,{hs},P|{}:{}|{}:{y},1,100", x + 50, y + 30, x + 95);
                }
                Kind::Spinner(len) => {
                    let _ = writeln!(s, "256,192,{ts},12,{hs},{}", t + i64::from(len));
                }
                Kind::SpinnerBack(len) => {
                    let _ = writeln!(s, "256,192,{ts},12,{hs},{}", t - i64::from(len));
                }
                Kind::Hold(len) => {
                    let _ = writeln!(s, "{xs},{ys},{ts},128,{hs},{}:0:0:0:0:", t + i64::from(len));
                }
            }
        }
        if self.stream.0 > 0 {
            let mut st = if self.stream_style & 1 != 0 { t + 100 } else { prev_end.max(t) + 400 };
            for i in 0..self.stream.0 {
                let (sx, sy) = if self.mode == 3 {
                    (((f64::from(i % keys) + 0.5) * 512.0 / f64::from(keys)).floor() as i32, 192)
                } else if self.stream_style & 4 != 0 {
                    (300, 200)
                } else {
                    (40 + (i as i32 * 67) % 430, 40 + (i as i32 * 41) % 300)
                };
                let snd = if self.stream_style & 2 != 0 { [4, 0, 8, 0][i as usize % 4] } else { 0 };
                let _ = writeln!(s, "{sx},{sy},{st},1,{snd}");
                st += i64::from(self.stream.1);
            }
        }
        s
    }

    pub fn decode(&self) -> Beatmap {
        Beatmap::from_bytes(self.text().as_bytes()).expect("grammar text must decode")
    }

    pub fn describe(&self) -> String {
        format!("{self:?}")
    }
}

/// An object alphabet; sequences over it are enumerated in index order (simplest first).
#[derive(Clone, Debug)]
pub struct Alphabet {
    pub objs: Vec<Obj>,
}

impl Alphabet {
    pub fn product(kinds: &[Kind], gaps: &[u32], poss: &[PosK], sounds: &[u8], cols: &[u8]) -> Self {
        let mut objs = Vec::new();
        for &col in cols {
            for &sound in sounds {
                for &pos in poss {
                    for &gap in gaps {
                        for &kind in kinds {
                            objs.push(Obj { kind, gap, pos, sound, col });
                        }
                    }
                }
            }
        }
        Self { objs }
    }

    pub fn len(&self) -> u64 {
        self.objs.len() as u64
    }

    pub fn is_empty(&self) -> bool {
        self.objs.is_empty()
    }

    /// Number of sequences with length in `0..=max_len`.
    pub fn count_upto(&self, max_len: u32) -> u64 {
        let a = self.len();
        (0..=max_len).map(|n| a.pow(n)).sum()
    }

    /// The `idx`-th sequence in length-then-lexicographic order.
    pub fn seq(&self, mut idx: u64, max_len: u32) -> Vec<Obj> {
        let a = self.len();
        let mut n = 0u32;
        loop {
            let c = a.pow(n);
            if idx < c || n == max_len {
                break;
            }
            idx -= c;
            n += 1;
        }
        let mut out = Vec::with_capacity(n as usize);
        for _ in 0..n {
            out.push(self.objs[(idx % a) as usize]);
            idx /= a;
        }
        // the first object's gap is irrelevant: canonicalise so that duplicates are recognisable
        out
    }
}

/// Mode configurations: (source mode, target mode).
#[derive(Copy, Clone, Debug, PartialEq, Eq, Hash)]
pub struct ModeCfg {
    pub src: u8,
    pub dst: u8,
}

pub const MODE_CFGS: [ModeCfg; 7] = [
    ModeCfg { src: 0, dst: 0 },
    ModeCfg { src: 1, dst: 1 },
    ModeCfg { src: 2, dst: 2 },
    ModeCfg { src: 3, dst: 3 },
    ModeCfg { src: 0, dst: 1 },
    ModeCfg { src: 0, dst: 2 },
    ModeCfg { src: 0, dst: 3 },
];

pub fn game_mode(m: u8) -> rosu_pp::model::mode::GameMode {
    use rosu_pp::model::mode::GameMode;
    match m {
        0 => GameMode::Osu,
        1 => GameMode::Taiko,
        2 => GameMode::Catch,
        _ => GameMode::Mania,
    }
}

pub fn mode_num(m: rosu_pp::model::mode::GameMode) -> u8 {
    use rosu_pp::model::mode::GameMode;
    match m {
        GameMode::Osu => 0,
        GameMode::Taiko => 1,
        GameMode::Catch => 2,
        GameMode::Mania => 3,
    }
}

/// The standard kinds for a native mode's alphabet.
pub fn kinds_for(src_mode: u8, rich: bool) -> Vec<Kind> {
    match src_mode {
        3 => {
            if rich {
                vec![Kind::Circle, Kind::Hold(0), Kind::Hold(100), Kind::Hold(300), Kind::Hold(1000)]
            } else {
                vec![Kind::Circle, Kind::Hold(100), Kind::Hold(300)]
            }
        }
        _ => {
            if rich {
                vec![
                    Kind::Circle,
                    Kind::Slider1,
                    Kind::Slider2,
                    Kind::Buzz,
                    Kind::SliderLong,
                    Kind::Spinner(600),
                ]
            } else {
                vec![Kind::Circle, Kind::Slider2, Kind::Spinner(600)]
            }
        }
    }
}

/// Fixture maps shipped with the repository (prefixes are used as additional inputs).
pub fn fixture_paths() -> [(&'static str, u8); 4] {
    [
        ("/repo/resources/2785319.osu", 0),
        ("/repo/resources/1028484.osu", 1),
        ("/repo/resources/2118524.osu", 2),
        ("/repo/resources/1638954.osu", 3),
    ]
}

/// The first `n` hit objects of a fixture map (decoded, then truncated).
pub fn fixture_prefix(path: &str, n: usize) -> Option<Beatmap> {
    let mut map = Beatmap::from_path(path).ok()?;
    map.hit_objects.truncate(n);
    map.hit_sounds.truncate(n);
    Some(map)
}

/// A window of `len` consecutive hit objects of a fixture map starting at object `start` (timing and difficulty kept).
pub fn fixture_window(path: &str, start: usize, len: usize) -> Option<Beatmap> {
    let mut map = Beatmap::from_path(path).ok()?;
    let end = (start + len).min(map.hit_objects.len());
    if start >= end {
        return None;
    }
    map.hit_objects = map.hit_objects[start..end].to_vec();
    map.hit_sounds = map.hit_sounds[start..end].to_vec();
    Some(map)
}
