//! E2 — explicit-state explorer over operation histories on live objects.
//!
//! A state *is* its history: `run` builds a fresh real object and replays the handlers. A history
//! whose canonical key was seen before is not expanded, but its observation must equal the one
//! stored for that key (differential oracle against path dependence).

use std::collections::{HashMap, VecDeque};
use std::hash::Hash;

pub struct Outcome<K> {
    /// canonical key of the reached state; `None` = terminal (do not expand)
    pub key: Option<K>,
    /// canonical observation of the reached state (compared across paths reaching the same key)
    pub obs: String,
    /// `Some(msg)`: the reference model disagrees with the implementation on this history
    pub verdict: Option<String>,
    /// number of implementation calls compared with reference predictions while replaying
    pub checked: u64,
}

pub trait Model {
    type Op: Clone + std::fmt::Debug;
    type Key: Hash + Eq + Clone;

    /// Operations enabled after `hist`.
    fn ops(&self, hist: &[Self::Op]) -> Vec<Self::Op>;
    /// Fresh object, replay `hist`, compare every step with the reference.
    fn run(&self, hist: &[Self::Op]) -> Outcome<Self::Key>;
}

#[derive(Default, Debug, Clone)]
pub struct Stats {
    pub states: u64,
    pub transitions: u64,
    pub checked: u64,
    pub max_depth: usize,
    pub distinct_obs: u64,
    pub revisits: u64,
}

pub struct Failure<Op> {
    pub hist: Vec<Op>,
    pub msg: String,
}

/// Breadth-first exploration up to `max_depth` (histories longer than that are not generated).
pub fn bfs<M: Model>(m: &M, max_depth: usize) -> (Stats, Option<Failure<M::Op>>) {
    let mut stats = Stats::default();
    let mut seen: HashMap<M::Key, String> = HashMap::new();
    let mut obs_set: std::collections::HashSet<u64> = std::collections::HashSet::new();
    let mut frontier: VecDeque<Vec<M::Op>> = VecDeque::new();

    let root = m.run(&[]);
    stats.checked += root.checked;
    if let Some(msg) = root.verdict {
        return (stats, Some(Failure { hist: Vec::new(), msg }));
    }
    if let Some(k) = root.key {
        obs_set.insert(crate::cmp::digest(&root.obs));
        seen.insert(k, root.obs);
        stats.states += 1;
        frontier.push_back(Vec::new());
    }

    while let Some(hist) = frontier.pop_front() {
        if hist.len() >= max_depth {
            continue;
        }
        for op in m.ops(&hist) {
            let mut h = hist.clone();
            h.push(op);
            let out = m.run(&h);
            stats.transitions += 1;
            stats.checked += out.checked;
            stats.max_depth = stats.max_depth.max(h.len());
            if let Some(msg) = out.verdict {
                return (stats, Some(Failure { hist: h, msg }));
            }
            let Some(k) = out.key else { continue };
            match seen.get(&k) {
                Some(prev) => {
                    stats.revisits += 1;
                    if *prev != out.obs {
                        let msg = format!(
                            "path dependence: state key reached by two histories with different observations\n  first : {prev}\n  second: {}",
                            out.obs
                        );
                        return (stats, Some(Failure { hist: h, msg }));
                    }
                }
                None => {
                    obs_set.insert(crate::cmp::digest(&out.obs));
                    seen.insert(k, out.obs);
                    stats.states += 1;
                    frontier.push_back(h);
                }
            }
        }
    }
    stats.distinct_obs = obs_set.len() as u64;
    (stats, None)
}

/// Engine self-test: a toy bounded queue with a seeded off-by-one bug must be found with the
/// known counts; the correct one must pass with the known state count.
pub fn self_test() -> Result<String, String> {
    struct Toy {
        buggy: bool,
    }
    impl Model for Toy {
        type Op = u8; // 0 = pop, 1/2 = push value
        type Key = Vec<u8>;
        fn ops(&self, _: &[u8]) -> Vec<u8> {
            vec![0, 1, 2]
        }
        fn run(&self, hist: &[u8]) -> Outcome<Vec<u8>> {
            // implementation: ring buffer of capacity 2; reference: Vec truncated to last 2
            let mut ring = [0u8; 2];
            let (mut head, mut len) = (0usize, 0usize);
            let mut refq: Vec<u8> = Vec::new();
            let mut checked = 0;
            for &op in hist {
                if op == 0 {
                    let got = if len > 0 {
                        let v = ring[head];
                        head = (head + 1) % 2;
                        len -= 1;
                        Some(v)
                    } else {
                        None
                    };
                    let want = if refq.is_empty() { None } else { Some(refq.remove(0)) };
                    checked += 1;
                    if got != want {
                        return Outcome { key: None, obs: String::new(), verdict: Some(format!("pop {got:?} != {want:?}")), checked };
                    }
                } else {
                    if len == 2 {
                        // overwrite oldest
                        ring[head] = op;
                        if !self.buggy {
                            head = (head + 1) % 2;
                        }
                    } else {
                        ring[(head + len) % 2] = op;
                        len += 1;
                    }
                    refq.push(op);
                    if refq.len() > 2 {
                        refq.remove(0);
                    }
                }
            }
            // observation = what the *implementation* holds, oldest first
            let view: Vec<u8> = (0..len).map(|i| ring[(head + i) % 2]).collect();
            Outcome { key: Some(refq.clone()), obs: format!("{view:?}"), verdict: None, checked }
        }
    }
    let (s_ok, f_ok) = bfs(&Toy { buggy: false }, 6);
    if f_ok.is_some() {
        return Err("explorer self-test: correct toy model reported a failure".into());
    }
    if s_ok.states != 7 {
        return Err(format!("explorer self-test: expected 7 states, got {}", s_ok.states));
    }
    let (_, f_bad) = bfs(&Toy { buggy: true }, 6);
    match f_bad {
        // the buggy overwrite is first visible through the same-key-same-observation oracle at depth 3
        Some(f) if f.hist.len() == 3 && f.msg.starts_with("path dependence") => Ok(format!(
            "explorer self-test ok: states={} transitions={} ; seeded bug found at depth {} hist={:?}",
            s_ok.states, s_ok.transitions, f.hist.len(), f.hist
        )),
        Some(f) => Err(format!("explorer self-test: counterexample of unexpected depth {} {:?}", f.hist.len(), f.hist)),
        None => Err("explorer self-test: seeded bug NOT found".into()),
    }
}
