//! Standard map universes shared by the E1 checks.

use rosu_pp::Beatmap;

use crate::{
    gen::{Alphabet, DiffPreset, Kind, MapSpec, ModeCfg, PosK, Timing, MODE_CFGS},
    json::J,
    Local,
};

pub struct MapUniverse {
    pub name: String,
    pub cfg: ModeCfg,
    pub alpha: Alphabet,
    pub n_max: u32,
    pub total: u64,
    pub diff: DiffPreset,
    pub timing: Timing,
    pub version: u32,
    pub first_start: i32,
    pub keys: u8,
    pub stream: (u32, u32),
    pub repeat: u32,
}

impl MapUniverse {
    pub fn spec(&self, idx: u64) -> MapSpec {
        MapSpec {
            version: self.version,
            mode: self.cfg.src,
            diff: self.diff,
            keys: self.keys,
            timing: self.timing,
            first_start: self.first_start,
            objs: self.alpha.seq(idx, self.n_max),
            stream: self.stream,
            jitter: 0,
            repeat: self.repeat,
            stream_style: 0,
            cs_tenths: 0,
            frac_tenths: 0,
        }
    }

    pub fn decode(&self, idx: u64) -> (MapSpec, Beatmap) {
        let spec = self.spec(idx);
        let map = spec.decode();
        (spec, map)
    }

    pub fn sample(&self, l: &Local<'_>, idx: u64, spec: &MapSpec, extra: &str) {
        if l.want_sample() {
            let mut o = J::obj();
            o.set("universe", J::s(self.name.clone()));
            o.set("index", J::i(idx));
            o.set("map_spec", J::s(spec.describe()));
            if !extra.is_empty() {
                o.set("crossed_with", J::s(extra));
            }
            l.sample(o);
        }
    }
}

#[derive(Clone)]
pub struct UniOpts {
    pub n_max: u32,
    pub kinds_std: Vec<Kind>,
    pub kinds_mania: Vec<Kind>,
    pub gaps: Vec<u32>,
    pub poss: Vec<PosK>,
    pub sounds: Vec<u8>,
    pub mania_cols: Vec<u8>,
    pub cfgs: Vec<ModeCfg>,
    pub diff: DiffPreset,
    pub timing: Timing,
    pub version: u32,
    pub first_start: i32,
    pub keys: u8,
    pub tag: String,
    pub stream: (u32, u32),
    pub repeat: u32,
}

impl UniOpts {
    pub fn new(n_max: u32) -> Self {
        Self {
            n_max,
            kinds_std: vec![Kind::Circle, Kind::Slider2, Kind::Spinner(600)],
            kinds_mania: vec![Kind::Circle, Kind::Hold(100), Kind::Hold(300)],
            gaps: vec![0, 150, 1000],
            poss: vec![PosK::Same, PosK::Far],
            sounds: vec![0],
            mania_cols: vec![0, 2],
            cfgs: MODE_CFGS.to_vec(),
            diff: DiffPreset::D0,
            timing: Timing::T0,
            version: 14,
            first_start: 1000,
            keys: 4,
            tag: String::new(),
            stream: (0, 0),
            repeat: 1,
        }
    }

    pub fn build(&self) -> Vec<MapUniverse> {
        self.cfgs
            .iter()
            .map(|cfg| {
                let alpha = if cfg.src == 3 {
                    Alphabet::product(&self.kinds_mania, &self.gaps, &[PosK::Same], &self.sounds, &self.mania_cols)
                } else {
                    Alphabet::product(&self.kinds_std, &self.gaps, &self.poss, &self.sounds, &[0])
                };
                let total = alpha.count_upto(self.n_max);
                MapUniverse {
                    name: format!("grammar{}/{}to{}/N<={}/|A|={}", self.tag, cfg.src, cfg.dst, self.n_max, alpha.len()),
                    cfg: *cfg,
                    alpha,
                    n_max: self.n_max,
                    total,
                    diff: self.diff,
                    timing: self.timing,
                    version: self.version,
                    first_start: self.first_start,
                    keys: self.keys,
                    stream: self.stream,
                    repeat: self.repeat,
                }
            })
            .collect()
    }
}

/// Periodic longer maps: every motif of `1..=mlen` objects (hit sounds, stacked / far positions, mania columns and chords
/// included) repeated `reps` times. State that is carried from object to object — colour / rhythm patterns, stacking,
/// per-column hold ends, combo bookkeeping — is only exercised by maps of this length.
pub struct MotifUniverse {
    pub name: String,
    pub cfg: ModeCfg,
    pub alpha: Alphabet,
    pub mlen: u32,
    pub reps: u32,
    /// number of motifs (the empty one excluded)
    pub total: u64,
}

impl MotifUniverse {
    pub fn spec(&self, idx: u64) -> MapSpec {
        MapSpec { repeat: self.reps, diff: DiffPreset::D4, ..MapSpec::new(self.cfg.src, self.alpha.seq(idx + 1, self.mlen)) }
    }
}

pub fn motif_universes(cfgs: &[ModeCfg], mlen: u32, reps: u32, wide: bool) -> Vec<MotifUniverse> {
    cfgs.iter()
        .map(|cfg| {
            let alpha = if cfg.src == 3 {
                Alphabet::product(&[Kind::Circle, Kind::Hold(100), Kind::Hold(300)], if wide { &[0, 110, 250] } else { &[110, 250] }, &[PosK::Same], &[0], &[0, 1, 2])
            } else if wide {
                Alphabet::product(&[Kind::Circle, Kind::Slider2, Kind::SliderLong, Kind::Spinner(600)], &[110, 250], &[PosK::Same, PosK::Far], &[0, 8], &[0])
            } else {
                Alphabet::product(&[Kind::Circle, Kind::Slider2, Kind::Spinner(600)], &[110, 250], &[PosK::Same, PosK::Far], &[0, 8], &[0])
            };
            let total = alpha.count_upto(mlen) - 1;
            MotifUniverse { name: format!("motif/{}to{}/len<={mlen}-x{reps}/|A|={}", cfg.src, cfg.dst, alpha.len()), cfg: *cfg, alpha, mlen, reps, total }
        })
        .collect()
}

/// Rhythm universes: circle-only (mania: note / hold) motifs of `1..=mlen` objects over gaps {75, 300, 1600} ms — ratios of
/// more than 16x between consecutive intervals, pauses followed by bursts — repeated `reps` times.
pub fn rhythm_universes(cfgs: &[ModeCfg], mlen: u32, reps: u32) -> Vec<MotifUniverse> {
    cfgs.iter()
        .map(|cfg| {
            let alpha = if cfg.src == 3 {
                Alphabet::product(&[Kind::Circle, Kind::Hold(100)], &[75, 300, 1600], &[PosK::Same], &[0], &[0, 1])
            } else {
                Alphabet::product(&[Kind::Circle], &[75, 300, 1600], &[PosK::Far], &[0, 8], &[0])
            };
            let total = alpha.count_upto(mlen) - 1;
            MotifUniverse { name: format!("rhythm/{}to{}/len<={mlen}-x{reps}/|A|={}", cfg.src, cfg.dst, alpha.len()), cfg: *cfg, alpha, mlen, reps, total }
        })
        .chain(cfgs.iter().filter(|c| c.src != 3).map(|cfg| {
            // slow 1 : 3 : 9 rhythms with colour changes, motifs of <= 4 notes played twice (consistent-ratio logic)
            let alpha = Alphabet::product(&[Kind::Circle], &[400, 1200, 3600], &[PosK::Far], &[0, 8], &[0]);
            let total = alpha.count_upto(4) - 1;
            MotifUniverse { name: format!("rhythm-1:3:9/{}to{}/len<=4-x2/|A|={}", cfg.src, cfg.dst, alpha.len()), cfg: *cfg, alpha, mlen: 4, reps: 2, total }
        }))
        .collect()
}

/// Thorough-tier extension: more interval families (1:2:3:4 stream ratios, 1:2:4 beats, 1:3:9 slow), motifs of <= 4 / 5
/// notes over two colours played twice.
pub fn rhythm_universes_wide(cfgs: &[ModeCfg]) -> Vec<MotifUniverse> {
    let mut out = Vec::new();
    for (name, gaps, mlen) in [("1:2:3:4", vec![60u32, 120, 180, 240], 4u32), ("1:2:4", vec![250, 500, 1000], 5), ("1:3:9", vec![400, 1200, 3600], 5), ("16x", vec![75, 300, 1600], 5)] {
        for cfg in cfgs.iter().filter(|c| c.src != 3) {
            let alpha = Alphabet::product(&[Kind::Circle], &gaps, &[PosK::Far], &[0, 8], &[0]);
            let total = alpha.count_upto(mlen) - 1;
            out.push(MotifUniverse { name: format!("rhythm-{name}/{}to{}/len<={mlen}-x2/|A|={}", cfg.src, cfg.dst, alpha.len()), cfg: *cfg, alpha, mlen, reps: 2, total });
        }
    }
    out
}
