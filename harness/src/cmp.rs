//! Canonical comparison: exact equality, except that NaN == NaN and -0.0 == 0.0.

use std::fmt::Debug;

/// Normalise the `Debug` rendering: every numeric token equal to zero becomes `0.0`.
pub fn canon(s: &str) -> String {
    let b = s.as_bytes();
    let mut out = String::with_capacity(s.len());
    let mut i = 0;
    while i < b.len() {
        let c = b[i];
        let prev_alnum = i > 0 && (b[i - 1].is_ascii_alphanumeric() || b[i - 1] == b'_');
        if !prev_alnum && (c == b'-' || c.is_ascii_digit()) {
            let mut j = i;
            if b[j] == b'-' {
                j += 1;
            }
            let ds = j;
            while j < b.len() && (b[j].is_ascii_digit() || b[j] == b'.' || b[j] == b'e' || ((b[j] == b'-' || b[j] == b'+') && b[j - 1] == b'e')) {
                j += 1;
            }
            if j > ds {
                let tok = &s[i..j];
                match tok.parse::<f64>() {
                    Ok(v) if v == 0.0 => out.push_str("0.0"),
                    _ => out.push_str(tok),
                }
                i = j;
                continue;
            }
        }
        out.push(c as char);
        i += 1;
    }
    out
}

/// Equality under the canonical dump.
pub fn same<T: PartialEq + Debug>(a: &T, b: &T) -> bool {
    a == b || canon(&format!("{a:?}")) == canon(&format!("{b:?}"))
}

pub fn same_opt<T: PartialEq + Debug>(a: &Option<T>, b: &Option<T>) -> bool {
    match (a, b) {
        (None, None) => true,
        (Some(a), Some(b)) => same(a, b),
        _ => false,
    }
}

/// Scan a `Debug` dump for non-finite floats; returns the offending token context.
pub fn find_non_finite(s: &str) -> Option<String> {
    for pat in ["NaN", "inf"] {
        if let Some(p) = s.find(pat) {
            let a = s[..p].rfind([',', '{', '(']).map_or(0, |x| x + 1);
            let e = (p + pat.len() + 1).min(s.len());
            return Some(s[a..e].trim().to_owned());
        }
    }
    None
}

/// 64-bit FNV-1a digest of a canonical dump.
pub fn digest(s: &str) -> u64 {
    let mut h: u64 = 0xcbf2_9ce4_8422_2325;
    for b in s.as_bytes() {
        h ^= u64::from(*b);
        h = h.wrapping_mul(0x0000_0100_0000_01b3);
    }
    h
}

/// Equality of Debug renderings where numeric tokens may differ by a relative tolerance (used only under Miri, which
/// perturbs the last bits of some float intrinsics).
pub fn same_approx<T: Debug>(a: &T, b: &T, rel: f64) -> bool {
    let (sa, sb) = (format!("{a:?}"), format!("{b:?}"));
    let split = |s: &str| -> Vec<String> {
        let mut out = Vec::new();
        let mut cur = String::new();
        let mut num = false;
        for c in s.chars() {
            let is_num = c.is_ascii_digit() || c == '.' || c == '-' || (num && (c == 'e' || c == '+'));
            if is_num != num && !cur.is_empty() {
                out.push(std::mem::take(&mut cur));
            }
            num = is_num;
            cur.push(c);
        }
        if !cur.is_empty() {
            out.push(cur);
        }
        out
    };
    let (ta, tb) = (split(&sa), split(&sb));
    ta.len() == tb.len()
        && ta.iter().zip(&tb).all(|(x, y)| {
            x == y
                || match (x.parse::<f64>(), y.parse::<f64>()) {
                    (Ok(p), Ok(q)) => (p - q).abs() <= rel * p.abs().max(q.abs()).max(1e-300),
                    _ => false,
                }
        })
}
