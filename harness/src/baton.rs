//! E3 — baton scheduler: k real OS threads, exactly one runnable at a time, switch points at
//! public API call boundaries; all interleavings of the threads' step lists are enumerated.

use std::sync::{Arc, Condvar, Mutex};

/// Enumerate all interleavings (multiset permutations) of threads with the given step counts.
/// Each schedule is a sequence of thread ids.
pub fn interleavings(steps: &[usize]) -> Vec<Vec<u8>> {
    fn rec(rem: &mut Vec<usize>, cur: &mut Vec<u8>, out: &mut Vec<Vec<u8>>) {
        if rem.iter().all(|&r| r == 0) {
            out.push(cur.clone());
            return;
        }
        for t in 0..rem.len() {
            if rem[t] > 0 {
                rem[t] -= 1;
                cur.push(t as u8);
                rec(rem, cur, out);
                cur.pop();
                rem[t] += 1;
            }
        }
    }
    let mut out = Vec::new();
    rec(&mut steps.to_vec(), &mut Vec::new(), &mut out);
    out
}

struct BatonState {
    /// position in the schedule
    pos: usize,
    schedule: Vec<u8>,
    poisoned: bool,
}

#[derive(Clone)]
pub struct Baton {
    inner: Arc<(Mutex<BatonState>, Condvar)>,
}

impl Baton {
    pub fn new(schedule: Vec<u8>) -> Self {
        Self {
            inner: Arc::new((Mutex::new(BatonState { pos: 0, schedule, poisoned: false }), Condvar::new())),
        }
    }

    /// Block until it is thread `me`'s turn. Returns false if the schedule is exhausted or poisoned.
    pub fn acquire(&self, me: u8) -> bool {
        let (m, cv) = &*self.inner;
        let mut st = m.lock().unwrap();
        loop {
            if st.poisoned || st.pos >= st.schedule.len() {
                return false;
            }
            if st.schedule[st.pos] == me {
                return true;
            }
            st = cv.wait(st).unwrap();
        }
    }

    /// Finish the current step and hand the baton on.
    pub fn release(&self) {
        let (m, cv) = &*self.inner;
        let mut st = m.lock().unwrap();
        st.pos += 1;
        cv.notify_all();
    }

    pub fn poison(&self) {
        let (m, cv) = &*self.inner;
        m.lock().unwrap().poisoned = true;
        cv.notify_all();
    }

    pub fn finished(&self) -> bool {
        let (m, _) = &*self.inner;
        let st = m.lock().unwrap();
        st.pos >= st.schedule.len() && !st.poisoned
    }
}

/// Run `k` thread bodies under the given schedule. `body(tid, step_no)` is executed for each
/// occurrence of `tid` in the schedule, on a real OS thread dedicated to `tid`.
/// Returns, per thread, the list of step results in order; Err if a replayed schedule diverged
/// (a thread was asked for more steps than it has, or panicked).
pub fn run_schedule<R: Send, F>(k: usize, schedule: &[u8], body: F) -> Result<Vec<Vec<R>>, String>
where
    F: Fn(u8, usize) -> R + Sync,
{
    run_schedule_with(k, schedule, |_| (), |tid, step, ()| body(tid, step))
}

/// As [`run_schedule`], with a per-thread state that is created on, and never leaves, its thread (it need not be `Send`).
pub fn run_schedule_with<S, R: Send, I, F>(k: usize, schedule: &[u8], init: I, body: F) -> Result<Vec<Vec<R>>, String>
where
    I: Fn(u8) -> S + Sync,
    F: Fn(u8, usize, &mut S) -> R + Sync,
{
    let baton = Baton::new(schedule.to_vec());
    let mut results: Vec<Vec<R>> = Vec::new();
    let mut err = None;
    std::thread::scope(|s| {
        let mut handles = Vec::new();
        for tid in 0..k as u8 {
            let baton = baton.clone();
            let body = &body;
            let init = &init;
            handles.push(s.spawn(move || {
                let mut out = Vec::new();
                let mut step = 0;
                let mut state = init(tid);
                while baton.acquire(tid) {
                    let r = std::panic::catch_unwind(std::panic::AssertUnwindSafe(|| body(tid, step, &mut state)));
                    match r {
                        Ok(v) => out.push(v),
                        Err(_) => {
                            baton.poison();
                            return Err(format!("thread {tid} panicked at its step {step}"));
                        }
                    }
                    step += 1;
                    baton.release();
                }
                Ok(out)
            }));
        }
        for h in handles {
            match h.join() {
                Ok(Ok(v)) => results.push(v),
                Ok(Err(e)) => err = Some(e),
                Err(_) => err = Some("scheduler thread died".to_owned()),
            }
        }
    });
    if let Some(e) = err {
        return Err(e);
    }
    if !baton.finished() {
        return Err("schedule not run to completion (divergence)".to_owned());
    }
    Ok(results)
}

pub fn self_test() -> Result<String, String> {
    let n = interleavings(&[2, 3]).len();
    if n != 10 {
        return Err(format!("baton self-test: expected 10 interleavings of (2,3), got {n}"));
    }
    let n = interleavings(&[2, 2, 2]).len();
    if n != 90 {
        return Err(format!("baton self-test: expected 90 interleavings of (2,2,2), got {n}"));
    }
    // a deliberately racy shared counter (read-then-write split over two steps) must show a lost
    // update in some but not all schedules
    let mut outcomes = std::collections::BTreeSet::new();
    for sch in interleavings(&[2, 2]) {
        let cell = Mutex::new(0u32);
        let tmp = [Mutex::new(0u32), Mutex::new(0u32)];
        run_schedule(2, &sch, |tid, step| {
            if step == 0 {
                *tmp[tid as usize].lock().unwrap() = *cell.lock().unwrap();
            } else {
                *cell.lock().unwrap() = *tmp[tid as usize].lock().unwrap() + 1;
            }
        })?;
        outcomes.insert(*cell.lock().unwrap());
    }
    if outcomes.len() != 2 {
        return Err(format!("baton self-test: expected outcomes {{1,2}}, got {outcomes:?}"));
    }
    Ok("baton self-test ok: 10/90 interleavings, lost update observed in a strict subset of schedules".to_owned())
}
