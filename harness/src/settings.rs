//! SettingSpec menus: finite sets of `Difficulty` configurations.

use rosu_pp::{
    model::{
        mode::GameMode,
        mods::rosu_mods::{
            generated_mods::{
                ClassicOsu, DifficultyAdjustCatch, DifficultyAdjustMania, DifficultyAdjustOsu,
                DifficultyAdjustTaiko, DoubleTimeCatch, DoubleTimeMania, DoubleTimeOsu,
                DoubleTimeTaiko, HalfTimeCatch, HalfTimeMania, HalfTimeOsu, HalfTimeTaiko,
                HardRockOsu, HoldOffMania, InvertMania, MirrorCatch, MirrorOsu, RandomMania,
                RandomTaiko, TenKeysMania,
            },
            GameMod, GameMods as LazerMods,
        },
    },
    Difficulty, GameMods,
};

pub const NF: u32 = 1;
pub const EZ: u32 = 2;
pub const TD: u32 = 4;
pub const HD: u32 = 8;
pub const HR: u32 = 16;
pub const DT: u32 = 64;
pub const RX: u32 = 128;
pub const HT: u32 = 256;
pub const NC: u32 = 512;
pub const FL: u32 = 1024;
pub const SO: u32 = 4096;
pub const AP: u32 = 8192;
pub const KEY4: u32 = 32768;
pub const KEY5: u32 = 65536;
pub const KEY6: u32 = 131_072;
pub const KEY7: u32 = 262_144;
pub const KEY8: u32 = 524_288;
pub const KEY9: u32 = 16_777_216;
pub const KEY1: u32 = 67_108_864;
pub const KEY3: u32 = 134_217_728;
pub const KEY2: u32 = 268_435_456;
pub const MR: u32 = 1_073_741_824;

pub const KEY_BITS: [u32; 9] = [KEY1, KEY2, KEY3, KEY4, KEY5, KEY6, KEY7, KEY8, KEY9];

#[derive(Clone, Debug, PartialEq)]
pub enum ModSpec {
    Bits(u32),
    HoldOff,
    Invert,
    /// Random with seed (mania / taiko variant picked by mode)
    Random(Option<f64>),
    TenKeys,
    /// lazer Classic mod (osu): no_slider_head_accuracy setting
    Classic(Option<bool>),
    /// lazer DT/HT with custom speed change
    Rate(f64),
    /// lazer Mirror (osu: reflection setting; catch: plain)
    Mirror(Option<&'static str>),
    /// lazer HardRock (osu)
    LazerHr,
    /// lazer DifficultyAdjust: ar, cs, hp, od
    Da(Option<f64>, Option<f64>, Option<f64>, Option<f64>),
    /// HoldOff + Invert together (+ Random with the seed): the game marks them incompatible, the library applies them
    /// in a fixed order, which every path must share
    HoIn(Option<f64>),
    /// lazer DifficultyAdjust (ar, cs, hp, od) next to the lazer forms of the given legacy bits (e.g. HR)
    DaPlus(u32, Option<f64>, Option<f64>, Option<f64>, Option<f64>),
    /// mode-less (intermode) mods given by their acronyms and handed over *by reference* (`&GameModsIntermode`)
    IntermodeRef(&'static str),
}

impl ModSpec {
    /// The lazer mods of a spec that is made of lazer mods (empty for bit / intermode specs).
    pub fn lazer_list(&self, mode: GameMode) -> Vec<GameMod> {
        match self {
            ModSpec::Da(ar, cs, hp, od) => vec![match mode {
                GameMode::Osu => GameMod::DifficultyAdjustOsu(DifficultyAdjustOsu { approach_rate: *ar, circle_size: *cs, drain_rate: *hp, overall_difficulty: *od, ..Default::default() }),
                GameMode::Taiko => GameMod::DifficultyAdjustTaiko(DifficultyAdjustTaiko { drain_rate: *hp, overall_difficulty: *od, ..Default::default() }),
                GameMode::Catch => GameMod::DifficultyAdjustCatch(DifficultyAdjustCatch { approach_rate: *ar, circle_size: *cs, drain_rate: *hp, overall_difficulty: *od, ..Default::default() }),
                GameMode::Mania => GameMod::DifficultyAdjustMania(DifficultyAdjustMania { drain_rate: *hp, overall_difficulty: *od, ..Default::default() }),
            }],
            _ => Vec::new(),
        }
    }

    /// Whether the mod set contains the given acronym (only meaningful for `IntermodeRef`).
    pub fn has_acronym(&self, a: &str) -> bool {
        matches!(self, ModSpec::IntermodeRef(s) if s.as_bytes().chunks(2).any(|c| c == a.as_bytes()))
    }

    pub fn build(&self, mode: GameMode) -> GameMods {
        let mut l = LazerMods::new();
        match self {
            ModSpec::Bits(b) => return GameMods::from(*b),
            ModSpec::IntermodeRef(a) => {
                let im = rosu_pp::model::mods::rosu_mods::GameModsIntermode::from_acronyms(a);
                return GameMods::from(&im);
            }
            ModSpec::HoldOff => l.insert(GameMod::HoldOffMania(HoldOffMania {})),
            ModSpec::Invert => l.insert(GameMod::InvertMania(InvertMania {})),
            ModSpec::Random(seed) => match mode {
                GameMode::Taiko => l.insert(GameMod::RandomTaiko(RandomTaiko { seed: *seed })),
                _ => l.insert(GameMod::RandomMania(RandomMania { seed: *seed })),
            },
            ModSpec::TenKeys => l.insert(GameMod::TenKeysMania(TenKeysMania {})),
            ModSpec::Classic(v) => l.insert(GameMod::ClassicOsu(ClassicOsu {
                no_slider_head_accuracy: *v,
                ..Default::default()
            })),
            ModSpec::Rate(r) => {
                let sc = Some(*r);
                let m = if *r >= 1.0 {
                    match mode {
                        GameMode::Osu => GameMod::DoubleTimeOsu(DoubleTimeOsu { speed_change: sc, ..Default::default() }),
                        GameMode::Taiko => GameMod::DoubleTimeTaiko(DoubleTimeTaiko { speed_change: sc, ..Default::default() }),
                        GameMode::Catch => GameMod::DoubleTimeCatch(DoubleTimeCatch { speed_change: sc, ..Default::default() }),
                        GameMode::Mania => GameMod::DoubleTimeMania(DoubleTimeMania { speed_change: sc, ..Default::default() }),
                    }
                } else {
                    match mode {
                        GameMode::Osu => GameMod::HalfTimeOsu(HalfTimeOsu { speed_change: sc, ..Default::default() }),
                        GameMode::Taiko => GameMod::HalfTimeTaiko(HalfTimeTaiko { speed_change: sc, ..Default::default() }),
                        GameMode::Catch => GameMod::HalfTimeCatch(HalfTimeCatch { speed_change: sc, ..Default::default() }),
                        GameMode::Mania => GameMod::HalfTimeMania(HalfTimeMania { speed_change: sc, ..Default::default() }),
                    }
                };
                l.insert(m);
            }
            ModSpec::Mirror(r) => match mode {
                GameMode::Catch => l.insert(GameMod::MirrorCatch(MirrorCatch {})),
                _ => l.insert(GameMod::MirrorOsu(MirrorOsu {
                    reflection: r.map(str::to_owned),
                })),
            },
            ModSpec::LazerHr => l.insert(GameMod::HardRockOsu(HardRockOsu {})),
            ModSpec::HoIn(seed) => {
                l.insert(GameMod::HoldOffMania(HoldOffMania {}));
                l.insert(GameMod::InvertMania(InvertMania {}));
                if seed.is_some() {
                    l.insert(GameMod::RandomMania(RandomMania { seed: *seed }));
                }
            }
            ModSpec::DaPlus(bits, ar, cs, hp, od) => {
                use rosu_pp::model::mods::rosu_mods::{GameMode as MM, GameModsIntermode};
                let mm = match mode {
                    GameMode::Osu => MM::Osu,
                    GameMode::Taiko => MM::Taiko,
                    GameMode::Catch => MM::Catch,
                    GameMode::Mania => MM::Mania,
                };
                let mut with_bits = GameModsIntermode::from_bits(*bits).try_with_mode(mm).unwrap_or_default();
                for gm in ModSpec::Da(*ar, *cs, *hp, *od).lazer_list(mode) {
                    with_bits.insert(gm);
                }
                return GameMods::from(with_bits);
            }
            ModSpec::Da(ar, cs, hp, od) => {
                let m = match mode {
                    GameMode::Osu => GameMod::DifficultyAdjustOsu(DifficultyAdjustOsu {
                        approach_rate: *ar,
                        circle_size: *cs,
                        drain_rate: *hp,
                        overall_difficulty: *od,
                        ..Default::default()
                    }),
                    GameMode::Taiko => GameMod::DifficultyAdjustTaiko(DifficultyAdjustTaiko {
                        drain_rate: *hp,
                        overall_difficulty: *od,
                        ..Default::default()
                    }),
                    GameMode::Catch => GameMod::DifficultyAdjustCatch(DifficultyAdjustCatch {
                        approach_rate: *ar,
                        circle_size: *cs,
                        drain_rate: *hp,
                        overall_difficulty: *od,
                        ..Default::default()
                    }),
                    GameMode::Mania => GameMod::DifficultyAdjustMania(DifficultyAdjustMania {
                        drain_rate: *hp,
                        overall_difficulty: *od,
                        ..Default::default()
                    }),
                };
                l.insert(m);
            }
        }
        GameMods::from(l)
    }
}

#[derive(Clone, Debug, PartialEq)]
pub struct Setting {
    pub mods: ModSpec,
    pub rate: Option<f64>,
    pub ar: Option<(f32, bool)>,
    pub cs: Option<(f32, bool)>,
    pub od: Option<(f32, bool)>,
    pub hp: Option<(f32, bool)>,
    pub hr_offsets: Option<bool>,
    pub lazer: Option<bool>,
    /// `passed_objects(k)` carried by the Difficulty itself (e.g. handed to a gradual constructor)
    pub passed: Option<u32>,
}

impl Setting {
    pub const fn nm() -> Self {
        Self {
            mods: ModSpec::Bits(0),
            rate: None,
            ar: None,
            cs: None,
            od: None,
            hp: None,
            hr_offsets: None,
            lazer: None,
            passed: None,
        }
    }

    pub fn mods(m: ModSpec) -> Self {
        Self { mods: m, ..Self::nm() }
    }

    pub fn bits(b: u32) -> Self {
        Self::mods(ModSpec::Bits(b))
    }

    /// Build the `Difficulty` (`passed_objects` only if the setting carries it).
    pub fn difficulty(&self, mode: GameMode) -> Difficulty {
        let mut d = Difficulty::new().mods(self.mods.build(mode));
        if let Some(r) = self.rate {
            d = d.clock_rate(r);
        }
        if let Some((v, w)) = self.ar {
            d = d.ar(v, w);
        }
        if let Some((v, w)) = self.cs {
            d = d.cs(v, w);
        }
        if let Some((v, w)) = self.od {
            d = d.od(v, w);
        }
        if let Some((v, w)) = self.hp {
            d = d.hp(v, w);
        }
        if let Some(b) = self.hr_offsets {
            d = d.hardrock_offsets(b);
        }
        if let Some(b) = self.lazer {
            d = d.lazer(b);
        }
        if let Some(k) = self.passed {
            d = d.passed_objects(k);
        }
        d
    }
}

/// Mods menu relevant for difficulty of the given *target* mode.
pub fn mods_menu(dst: u8, rich: bool) -> Vec<ModSpec> {
    let mut v = vec![
        ModSpec::Bits(0),
        ModSpec::Bits(HR),
        ModSpec::Bits(DT),
        ModSpec::Bits(EZ | HT),
        ModSpec::Bits(HD | FL),
        // mods that switch skills or formulas off (Relax everywhere, Autopilot in osu!)
        ModSpec::Bits(RX),
    ];
    if rich {
        v.push(ModSpec::Bits(HD | HR | DT));
        v.push(ModSpec::Rate(1.3));
    }
    match dst {
        0 => {
            v.push(ModSpec::Bits(AP));
            if rich {
                v.push(ModSpec::Bits(TD));
                v.push(ModSpec::Mirror(None));
                v.push(ModSpec::Mirror(Some("2")));
                v.push(ModSpec::Classic(None));
                v.push(ModSpec::LazerHr);
                v.push(ModSpec::Da(Some(9.5), Some(6.0), None, Some(3.0)));
            }
        }
        1 => {
            if rich {
                v.push(ModSpec::Random(Some(1337.0)));
            }
        }
        2 => {
            if rich {
                v.push(ModSpec::Mirror(None));
            }
        }
        _ => {
            v.push(ModSpec::Bits(KEY4));
            v.push(ModSpec::Bits(KEY7));
            v.push(ModSpec::HoldOff);
            v.push(ModSpec::Invert);
            v.push(ModSpec::Random(Some(1337.0)));
            v.push(ModSpec::HoIn(None));
            if rich {
                v.push(ModSpec::HoIn(Some(3.0)));
                v.push(ModSpec::Bits(KEY1));
                v.push(ModSpec::Bits(KEY9 | DT));
                v.push(ModSpec::TenKeys);
                v.push(ModSpec::Random(None));
                v.push(ModSpec::Random(Some(0.0)));
            }
        }
    }
    v
}

pub fn rates_menu(rich: bool) -> Vec<Option<f64>> {
    if rich {
        vec![None, Some(0.75), Some(1.2), Some(1.5), Some(0.5), Some(2.0)]
    } else {
        vec![None, Some(0.75), Some(1.2), Some(1.5)]
    }
}

/// Attribute-override menu: (ar, cs, od, hp).
#[allow(clippy::type_complexity)]
pub fn overrides_menu(rich: bool) -> Vec<[Option<(f32, bool)>; 4]> {
    let mut v = vec![
        [None, None, None, None],
        [Some((9.3, true)), Some((5.5, true)), Some((8.5, true)), None],
        [Some((9.3, false)), Some((5.5, false)), Some((8.5, false)), None],
        [None, Some((7.0, false)), None, Some((3.0, true))],
    ];
    if rich {
        v.push([Some((0.0, false)), Some((0.0, false)), Some((0.0, false)), Some((0.0, false))]);
        v.push([Some((11.0, true)), Some((10.0, true)), Some((11.0, true)), Some((10.0, true))]);
    }
    v
}

/// The standard product menu (mods x rate x overrides) for a target mode.
pub fn standard_settings(dst: u8, rich: bool) -> Vec<Setting> {
    let mut out = Vec::new();
    for m in mods_menu(dst, rich) {
        for r in rates_menu(rich) {
            for o in overrides_menu(rich) {
                out.push(Setting {
                    mods: m.clone(),
                    rate: r,
                    ar: o[0],
                    cs: o[1],
                    od: o[2],
                    hp: o[3],
                    hr_offsets: None,
                    lazer: None,
                    passed: None,
                });
            }
        }
    }
    out
}

/// "Each dimension alone with defaults elsewhere" + a few pairs: the quick-tier crossing.
pub fn star_settings(dst: u8) -> Vec<Setting> {
    let mut out = Vec::new();
    for m in mods_menu(dst, false) {
        out.push(Setting::mods(m));
    }
    for r in rates_menu(false).into_iter().skip(1) {
        out.push(Setting { rate: r, ..Setting::nm() });
        out.push(Setting { rate: r, ..Setting::bits(HR) });
    }
    for o in overrides_menu(false).into_iter().skip(1) {
        out.push(Setting { ar: o[0], cs: o[1], od: o[2], hp: o[3], ..Setting::nm() });
        out.push(Setting { ar: o[0], cs: o[1], od: o[2], hp: o[3], ..Setting::bits(DT) });
    }
    out.push(Setting { lazer: Some(false), ..Setting::nm() });
    out.push(Setting { hr_offsets: Some(true), ..Setting::nm() });
    out
}
